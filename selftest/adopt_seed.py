#!/venv/bin/python
"""adopt_seed.py <property> <n> <name> <ran...>: copy a confirmed sub-agent
change from /tmp/seed-<P>/<n> into /verif/seeded/<name>/ with meta.json."""
import json, os, shutil, sys
P, n, name = sys.argv[1:4]
ran = sys.argv[4] if len(sys.argv) > 4 else ''
src = f'{os.environ.get("SEEDROOT", "/tmp/seed")}-{P}/{n}'
dst = f'/verif/seeded/{name}'
os.makedirs(dst, exist_ok=True)
for f in ('patch.diff', 'demo.py', 'notes.txt'):
    shutil.copy(os.path.join(src, f), os.path.join(dst, f))
notes = open(os.path.join(src, 'notes.txt')).read().strip()
meta = {'property': P, 'needs': notes,
        'origin': 'written by a sub-agent that saw only the property text '
                  'and its own scratch worktree',
        'confirmed': ran}
json.dump(meta, open(os.path.join(dst, 'meta.json'), 'w'), indent=1)
print('adopted', dst)
