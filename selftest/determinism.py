#!/venv/bin/python
"""Determinism self-test: the same VERIF_SEED must give the same event log
(per-run running digest over every step's observation) in
  A: 16 workers, PYTHONHASHSEED=0
  B: 16 workers again (same configuration twice)
  C: 3 workers, fresh interpreter with another PYTHONHASHSEED
  D: 1 worker, yet another PYTHONHASHSEED (subset)
usage: selftest/determinism.py [PROP ...] [--runs N]
"""
import json
import os
import subprocess
import sys
import tempfile

ROOT = os.path.dirname(os.path.dirname(os.path.abspath(__file__)))


def dump(prop, runs, workers, hashseed, seed):
    fd, path = tempfile.mkstemp(suffix='.json')
    os.close(fd)
    env = dict(os.environ)
    env.pop('VERIF_REEXEC', None)
    env['VERIF_HASHSEED'] = str(hashseed)
    # a skipped (unrecorded) operation must not have changed the model:
    # violations of that rule surface here as harness errors
    env['VERIF_SKIP_GUARD'] = '1'
    subprocess.run([os.path.join(ROOT, 'check'), prop, '--runs', str(runs),
                    '--workers', str(workers), '--seed', str(seed),
                    '--dump-digests', path], env=env, check=True,
                   stdout=subprocess.DEVNULL)
    with open(path) as f:
        rows = json.load(f)
    os.unlink(path)
    return rows


def main(argv):
    runs = 300
    props = []
    it = iter(argv)
    for a in it:
        if a == '--runs':
            runs = int(next(it))
        else:
            props.append(a)
    if not props:
        sys.path.insert(0, ROOT)
        from sim.cli import CHECKS
        props = sorted(CHECKS)
    bad = 0
    for prop in props:
        for seed in (0, 1):
            a = dump(prop, runs, 16, 0, seed)
            b = dump(prop, runs, 16, 0, seed)
            c = dump(prop, runs, 3, 4242, seed)
            d = dump(prop, max(20, runs // 10), 1, 99, seed)
            nerr = sum(1 for r in a if r[4])
            ok = a == b == c and a[:len(d)] == d and nerr == 0
            diff = [r[0] for r, s in zip(a, c) if r != s][:5]
            print(f'{prop} seed={seed}: {len(a)} runs x (16w, 16w again, 3w '
                  f'other hash seed) + {len(d)} runs 1w: '
                  f'{"identical" if ok else "DIFFER at runs " + str(diff)}'
                  f'{"" if nerr == 0 else f" ({nerr} harness errors)"}',
                  flush=True)
            bad += not ok
    return 1 if bad else 0


if __name__ == '__main__':
    sys.exit(main(sys.argv[1:]))
