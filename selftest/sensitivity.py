#!/venv/bin/python
"""Sensitivity self-test.  For every mutant in selftest/mutants.py (and every
seeded change under /verif/seeded/*/patch.diff): copy optiland to a scratch
directory outside /repo and /verif, apply the change there, run the property's
check against the copy (PYTHONPATH) and require exit 1 with a VIOLATION line
(whose replay the check has already re-executed in a fresh interpreter).
The scratch copy, replays and evidence of these runs are removed afterwards.

usage: selftest/sensitivity.py [--runs N] [--only substring] [--seeded]
"""
import json
import os
import shutil
import subprocess
import sys
import tempfile
import time

ROOT = os.path.dirname(os.path.dirname(os.path.abspath(__file__)))
sys.path.insert(0, ROOT)


def scratch():
    d = tempfile.mkdtemp(prefix='optiland-mut-')
    subprocess.run(['rsync', '-a', '--exclude', '__pycache__',
                    '/repo/optiland', '/repo/database', d + '/'], check=True)
    return d


def run_check(prop, d, runs, out):
    env = dict(os.environ)
    env.pop('VERIF_REEXEC', None)
    env['PYTHONPATH'] = d
    # enough witnesses for the runner's reproduction retries, then stop
    env.setdefault('VERIF_STOP_AFTER_VIOLATIONS', '6')
    env['VERIF_REPLAY_DIR'] = os.path.join(out, 'replays')
    env['VERIF_EVID_DIR'] = os.path.join(out, 'evidence')
    cmd = [os.path.join(ROOT, 'check'), prop]
    if runs:
        cmd += ['--runs', str(runs)]
    t0 = time.time()
    p = subprocess.run(cmd, env=env, capture_output=True, text=True)
    sigs = [l.split('signature=')[1].split()[0] for l in p.stdout.splitlines()
            if 'violation class=' in l]
    viol = [l for l in p.stdout.splitlines() if l.startswith('VIOLATION')]
    return p.returncode, sigs, viol, time.time() - t0, p.stdout


def main(argv):
    from selftest.mutants import MUTANTS
    runs = None
    only = None
    seeded = False
    it = iter(argv)
    for a in it:
        if a == '--runs':
            runs = int(next(it))
        elif a == '--only':
            only = next(it)
        elif a == '--seeded':
            seeded = True
    rows = []
    missed = 0
    jobs = []
    if not seeded:
        for name, prop, rel, old, new, note in MUTANTS:
            if only and only not in name:
                continue
            jobs.append((name, prop, ('edit', rel, old, new), note))
    sd = os.path.join(ROOT, 'seeded')
    if os.path.isdir(sd):
        for name in sorted(os.listdir(sd)):
            pth = os.path.join(sd, name, 'patch.diff')
            meta = os.path.join(sd, name, 'meta.json')
            if not os.path.exists(pth) or (only and only not in name):
                continue
            with open(meta) as f:
                m = json.load(f)
            jobs.append(('seeded/' + name, m['property'], ('patch', pth),
                         m.get('needs', '')))
    for name, prop, how, note in jobs:
        d = scratch()
        out = tempfile.mkdtemp(prefix='optiland-mut-out-')
        try:
            if how[0] == 'edit':
                _, rel, old, new = how
                path = os.path.join(d, rel)
                with open(path) as f:
                    src = f.read()
                if old not in src:
                    print(f'{name}: MUTANT DOES NOT APPLY')
                    missed += 1
                    continue
                with open(path, 'w') as f:
                    f.write(src.replace(old, new, 1))
            else:
                r = subprocess.run(['patch', '-p1', '-d', d, '-i', how[1]],
                                   capture_output=True, text=True)
                if r.returncode != 0:
                    print(f'{name}: PATCH DOES NOT APPLY\n{r.stdout}')
                    missed += 1
                    continue
            rc, sigs, viol, wall, stdout = run_check(prop, d, runs, out)
            ok = rc == 1 and viol
            missed += not ok
            print(f'{"DETECTED" if ok else "MISSED  "} {name} [{prop}] '
                  f'rc={rc} {wall:.0f}s {sigs[:3]}', flush=True)
            if not ok:
                print(stdout[-800:])
            rows.append({'mutant': name, 'property': prop, 'detected':
                         bool(ok), 'signatures': sigs, 'note': note})
        finally:
            shutil.rmtree(d, ignore_errors=True)
            shutil.rmtree(out, ignore_errors=True)
    last = os.path.join(ROOT, 'selftest', 'sensitivity_last.json')
    if only and os.path.exists(last):
        # a partial run updates the rows it re-ran and keeps the others
        with open(last) as f:
            old = json.load(f)
        fresh = {r['mutant']: r for r in rows}
        rows_out = [fresh.pop(r['mutant'], r) for r in old] + \
            list(fresh.values())
    else:
        rows_out = rows
    with open(last, 'w') as f:
        json.dump(rows_out, f, indent=1)
    print(f'{len(rows) - sum(not r["detected"] for r in rows)}/{len(rows)} '
          f'detected')
    return 1 if missed else 0


if __name__ == '__main__':
    sys.exit(main(sys.argv[1:]))
