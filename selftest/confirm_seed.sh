#!/bin/sh
# usage: confirm_seed.sh <property> <n> <worktree>
# Confirms a sub-agent's change: applies to a clean worktree, whole test suite
# passes, demo fails with the change and passes without it.
P=$1; N=$2; WT=$3; D=${SEEDROOT:-/tmp/seed}-$P/$N
set -e
git -C $WT checkout -q -- . ; git -C $WT status --short | head -3
git -C $WT apply $D/patch.diff
cd $WT
T=$(PYTHONPATH=$WT timeout 1500 /venv/bin/python -m pytest -q -p no:cacheprovider -n 8 tests 2>&1 | tail -1)
set +e
PYTHONPATH=$WT timeout 300 /venv/bin/python $D/demo.py > /tmp/demo-with.out 2>&1; W=$?
git -C $WT checkout -q -- .
PYTHONPATH=$WT timeout 300 /venv/bin/python $D/demo.py > /tmp/demo-without.out 2>&1; WO=$?
echo "seed $P/$N: tests: $T | demo with change exit=$W | without exit=$WO"
tail -2 /tmp/demo-with.out
