#!/bin/sh
# Runs every registered quick check at the given seeds (default: 1 2 0, the
# last one leaves the committed evidence at the default seed).  Prints one
# line per check and seed; exits non-zero if any check did.
cd "$(dirname "$0")/.."
SEEDS="${@:-1 2 0}"
RC=0
for s in $SEEDS; do
  for p in C01 C07 C13 C14 C15 C19; do
    OUT=$(VERIF_SEED=$s timeout 1800 ./check $p --tier quick 2>&1)
    rc=$?
    echo "seed=$s rc=$rc $(echo "$OUT" | tail -1)"
    if [ $rc -ne 0 ]; then RC=1; echo "$OUT" | grep -A3 "violation class\|HARNESS" | head -20; fi
  done
done
exit $RC
