#!/venv/bin/python
"""Prints the rows of DESIGN.md's seeded-change table from the last full
sensitivity run (selftest/sensitivity_last.json).
usage: selftest/seeded_table.py [name ...]   (default: every seeded change)"""
import json
import os
import sys

ROOT = os.path.dirname(os.path.dirname(os.path.abspath(__file__)))


def short(sigs):
    """violation classes without property prefix and call site"""
    out = []
    for s in sigs:
        parts = s.split('/')[2:]
        key = '/'.join(parts[:2]) if parts else s
        if key not in out:
            out.append(key)
    return ', '.join(out[:3])


def main(argv):
    with open(os.path.join(ROOT, 'selftest', 'sensitivity_last.json')) as f:
        rows = json.load(f)
    for r in rows:
        if not r['mutant'].startswith('seeded/'):
            continue
        name = r['mutant'].split('/', 1)[1]
        if argv and name not in argv:
            continue
        res = f'detected ({short(r["signatures"])})' if r['detected'] \
            else '**missed**'
        print(f'| `{name}` | {r["property"]} | {res} |')


if __name__ == '__main__':
    main(sys.argv[1:])
