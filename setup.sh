#!/bin/sh
# Offline setup: nothing is fetched or built.  Verifies that /venv imports
# optiland from /repo's working tree (editable install) and byte-compiles
# /verif into a throw-away directory to catch syntax errors early.
set -e
cd /verif
LOC=$(/venv/bin/python -c "import optiland, os; print(os.path.dirname(os.path.abspath(optiland.__file__)))")
if [ "$LOC" != "/repo/optiland" ]; then
  echo "optiland is imported from $LOC, expected /repo/optiland" >&2
  exit 1
fi
/venv/bin/python - <<'PY'
import hypothesis, numpy, scipy, numba  # noqa
import py_compile, os, sys, tempfile
bad = 0
d = tempfile.mkdtemp()
for dp, dn, fn in os.walk('/verif'):
    if '.git' in dp or '.cache' in dp:
        continue
    for f in fn:
        if f.endswith('.py'):
            try:
                py_compile.compile(os.path.join(dp, f), cfile=os.path.join(d, 'x.pyc'), doraise=True)
            except Exception as e:
                print(e); bad = 1
import shutil; shutil.rmtree(d, ignore_errors=True)
sys.exit(bad)
PY
mkdir -p /verif/.cache/numba /verif/evidence /verif/replays
echo "setup ok: optiland from $LOC"
