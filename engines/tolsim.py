"""Engine `tolsim` (C15) — tolerancing programs (sensitivity / Monte-Carlo runs,
reset, second run on the same object) on a real lens, with ray failure as
the injected fault and the compensation optimiser as simulated environment.

Oracles
  rows      every recorded trial equals the evaluation obtained by applying
            the recorded perturbation values to a *fresh* nominal lens,
            followed by the same compensation (reference = optiland's own
            Tolerancing on a lens rebuilt from the build operations)
  nominal   a perturbation equal to the nominal value reproduces the nominal
            operand values
  restore   when run() returns, and after reset(), the lens is back at its
            nominal prescription
  repro     the same program (same sampler seeds) run twice from scratch
            gives identical tables

Faults: perturbation ranges that cross into real ray failure; operands
wrapped (through the operand registry, the existing seam) with a NaN region
that is a pure function of the lens state, so the reference sees the same
faults; compensation driven by the stub optimiser driver as well as by real
scipy.
"""
import math
import warnings

import numpy as np

from sim import rng, lensgen, sut, simopt
from sim.canon import RunningDigest, canon, digest, same
from sim.model import NotApplicable
from sim.sut import quiet, f
from engines import history, optsim

ENGINE = 'tolsim'
FEATS = ['conic', 'asphere', 'poly', 'cheby', 'tilt', 'decenter', 'glass',
         'abbe',
         'finite_obj', 'multi_wl', 'planes', 'stop_any', 'aperture', 'mirror',
         'shared_material']


class Violation(Exception):
    def __init__(self, cls, signature, detail):
        super().__init__(signature)
        self.cls, self.signature, self.detail = cls, signature, detail


# --------------------------------------------------------------------------
def register_guards(hist):
    """Fault (b): operand = real operand o guard, where guard -> NaN iff a
    recorded predicate on the *lens state* holds."""
    from optiland.optimization.operand import operand_registry
    for spec in hist['operands']:
        g = spec.get('guard')
        if not g:
            continue
        real = operand_registry.get(spec['type'])

        def guarded(optic, _real=real, _g=g, **kw):
            try:
                r = float(optic.surface_group.radii[_g['k']])
            except Exception:
                r = float('nan')
            if (_g['side'] == 'below' and r < _g['r']) or \
                    (_g['side'] == 'above' and r > _g['r']):
                return float('nan')
            return _real(optic=optic, **kw)
        operand_registry.register('simguard:' + spec['type'], guarded,
                                  overwrite=True)


def op_type(spec):
    return ('simguard:' + spec['type']) if spec.get('guard') else spec['type']


def mk_sampler(s):
    from optiland.tolerancing.perturbation import (ScalarSampler,
                                                   RangeSampler,
                                                   DistributionSampler)
    if s['kind'] == 'scalar':
        return ScalarSampler(s['value'])
    if s['kind'] == 'range':
        return RangeSampler(s['start'], s['end'], s['steps'])
    if s['kind'] == 'normal':
        return DistributionSampler('normal', seed=s['seed'], loc=s['loc'],
                                   scale=s['scale'])
    if s['kind'] == 'uniform':
        return DistributionSampler('uniform', seed=s['seed'], low=s['low'],
                                   high=s['high'])
    raise ValueError(s)


class Program:
    """One construction of the whole tolerancing set-up on a fresh lens."""

    def __init__(self, hist, stats, with_samplers=True, share=True):
        from optiland.tolerancing import Tolerancing
        self.hist = hist
        self.stats = stats
        w = history.World('C15', {})
        if not share:
            # reference side: an equal prescription in which no two surfaces
            # hold the same material object ("a fresh copy of the nominal
            # lens")
            w.matcache = None
        try:
            for op in hist['build']:
                w.step(op)
            for op in hist.get('pre', []):
                w.step(op)
            if w.model.pickups or w.model.solves:
                w.step({'op': 'update'})
        except (history.Violation, history.Abort):
            raise NotApplicable('lens construction is C01\'s business')
        self.w = w
        self.lens = w.lens
        m = w.model
        if m.n < 3 or not m.wls or m.aperture is None or not m.fields:
            raise NotApplicable('incomplete lens')
        register_guards(hist)
        try:
            self._setup(hist, with_samplers, Tolerancing)
        except NotApplicable:
            raise
        except Exception as e:
            # e.g. an operand that cannot be evaluated on the nominal lens
            # (Chebyshev surface hit outside its normalisation box)
            raise NotApplicable(f'set-up raised {type(e).__name__}')
        if not self.tol.operands or not self.pspecs:
            raise NotApplicable('empty tolerancing problem')
        self.excursion = False
        self.nominal = self.snapshot()
        self.nominal_behaviour = self.behaviour()
        m = self.w.model
        # positions carry round-off of the edit history whenever a gap is
        # written relatively: thickness variables, thickness pickups, solves
        self.uses_thickness = any(s['type'] == 'thickness'
                                  for s in self.pspecs + self.cspecs) or \
            any(p['attr'] == 'thickness' for p in m.pickups) or \
            bool(m.solves)
        self.index_on_real_medium = any(
            s['type'] == 'index' and m.surfs[s['k']]['mat'][0] not in
            ('air',) and (m.surfs[s['k']]['mat'][0] != 'ideal' or
                          (len(m.surfs[s['k']]['mat']) > 2 and
                           m.surfs[s['k']]['mat'][2] != 0))
            for s in self.pspecs + self.cspecs)

    def _setup(self, hist, with_samplers, Tolerancing):
        with quiet(), warnings.catch_warnings():
            warnings.simplefilter('ignore')
            self.tol = Tolerancing(self.lens, method=hist.get('method',
                                                              'generic'),
                                   tol=hist.get('tol', 1e-5))
            for spec in hist['operands']:
                self.tol.add_operand(op_type(spec),
                                     optsim.operand_input(self.lens, spec),
                                     target=spec.get('target'),
                                     weight=spec.get('weight', 1.0))
            # the analysis objects may be made before the set of
            # perturbations and compensators is complete
            self.early_sens = self.early_mc = None
            self.pspecs = []
            for spec in hist['perturbations']:
                if not self.applicable(spec):
                    continue
                kw = optsim.var_kwargs(spec)
                # limits are accepted keyword arguments of the underlying
                # variable (and have no effect on what a perturbation writes)
                if spec.get('limits'):
                    kw['min_val'], kw['max_val'] = spec['limits']
                self.tol.add_perturbation(
                    spec['type'], mk_sampler(spec['sampler'])
                    if with_samplers else mk_sampler(
                        {'kind': 'scalar', 'value': 0.0}), **kw)
                self.pspecs.append(spec)
                if hist.get('early_analysis') and with_samplers and \
                        self.early_mc is None:
                    # (the constructors insist on one perturbation)
                    from optiland.tolerancing.sensitivity_analysis import \
                        SensitivityAnalysis
                    from optiland.tolerancing.monte_carlo import MonteCarlo
                    self.early_sens = SensitivityAnalysis(self.tol)
                    self.early_mc = MonteCarlo(self.tol)
            self.cspecs = []
            for spec in hist.get('compensators', []):
                if not self.applicable(spec, comp=True):
                    continue
                self.tol.add_compensator(spec['type'],
                                         **optsim.var_kwargs(spec))
                self.cspecs.append(spec)

    def applicable(self, spec, comp=False):
        m = self.w.model
        k, t = spec['k'], spec['type']
        # a quantity that a pickup or a solve overwrites is not a free
        # tolerance / compensator
        if t in ('radius', 'conic', 'thickness') and any(
                p['attr'] == t and p['dst'] == k for p in m.pickups):
            return False
        if t == 'thickness' and any(s_['k'] - 1 == k for s_ in m.solves):
            return False
        if not (0 <= k <= m.n - 1):
            return False
        kind = m.surfs[k]['kind']
        if t == 'radius':
            # (a flatness tolerance - absolute radii on a plane - carries no
            # nominal value)
            return 1 <= k <= m.n - 2 and (
                kind != 'plane' or (not comp and 'nominal' not in spec))
        if t in ('tilt', 'decenter'):
            return 1 <= k <= m.n - 2
        if t == 'conic':
            return 1 <= k <= m.n - 2 and kind != 'plane'
        if t == 'thickness':
            return 1 <= k <= m.n - 2
        if t == 'index':
            return 1 <= k <= m.n - 2
        if t == 'asphere_coeff':
            return kind == 'even_asphere' and \
                spec['coeff_number'] < len(m.surfs[k]['coeffs'] or [])
        if t == 'polynomial_coeff':
            return kind == 'polynomial'
        if t == 'chebyshev_coeff':
            return kind == 'chebyshev'
        return False

    def snapshot(self):
        with quiet(), warnings.catch_warnings():
            warnings.simplefilter('ignore')
            d = canon(self.lens.to_dict())
        # one prescription, two representations: a standard surface of
        # infinite radius and zero conic is a plane (a radius written to a
        # plane and taken back leaves the former)
        try:
            for sd in d['surface_group']['surfaces']:
                g = sd.get('geometry', {})
                if g.get('type') == 'StandardGeometry' and \
                        isinstance(g.get('radius'), float) and \
                        math.isinf(g['radius']) and g.get('conic') == 0:
                    sd['geometry'] = {'type': 'Plane', 'cs': g.get('cs'),
                                      'radius': g['radius']}
        except (KeyError, TypeError, AttributeError):
            pass
        return d

    def behaviour(self):
        """The operand values of the lens as it is now (None if they cannot
        be evaluated)."""
        try:
            with quiet(), warnings.catch_warnings():
                warnings.simplefilter('ignore')
                return [float(v) for v in self.tol.evaluate()]
        except Exception:    # noqa
            return None

    def ztol(self):
        z = [abs(f(v)) for v in self.lens.surface_group.positions]
        z = [v for v in z if math.isfinite(v)]
        return 1e-9 * (1.0 + max(z + [self.w.model.zscale]))

    def driver(self, trial_seed):
        h = self.hist
        if h.get('driver') == 'stub':
            drv = simopt.StubDriver(h.get('plan', []),
                                    [s.get('step', 1e-3)
                                     for s in self.cspecs],
                                    self.stats['probes'])
        else:
            drv = simopt.RealDriver(trial_seed, self.stats['probes'])
        lim = 1e9 * (1 + self.w.model.zscale)

        def watch():
            # an unbounded compensation that walks the lens to astronomical
            # size absorbs its other gaps for good (positions are absolute)
            z = self.lens.surface_group.positions[1:]
            z = np.abs(z[np.isfinite(z)])
            if z.size and float(z.max()) > lim:
                self.excursion = True
        drv.after_eval = watch
        return drv


def rows_of(obj):
    df = obj.get_results()
    rows = df.to_dict('records')
    return [{str(k): (float(v) if isinstance(v, (int, float, np.floating,
                                                 np.integer)) else v)
             for k, v in r.items()} for r in rows]


def nr_noise(build):
    """Inexact mode only: what the iterative surfaces of a lens add to the
    comparison of two lenses whose vertex positions differ in the last bit.
    Each converged ray is within tol of the surface; at the end of the
    longest gap that is tol x gap / radius."""
    from engines.interleave import batch_tol
    tol = batch_tol(build)
    if not tol:
        return 0.0
    gaps = [abs(o['thickness']) for o in build
            if o.get('op') == 'add_surface' and
            isinstance(o.get('thickness'), (int, float)) and
            math.isfinite(o['thickness'])]
    radii = [abs(o['radius']) for o in build
             if o.get('op') == 'add_surface' and
             isinstance(o.get('radius'), (int, float)) and
             math.isfinite(o['radius']) and o['radius'] != 0]
    amp = max(1.0, max(gaps + [1.0]) / min(radii + [1e9]))
    return tol * amp


EDGE = [0]      # NaN-vs-finite pairs let through in inexact mode (probe)


def close(a, b, exact, scale=1.0, extra=0.0):
    if isinstance(a, str) or isinstance(b, str):
        return a == b
    a, b = float(a), float(b)
    if math.isnan(a) and math.isnan(b):
        return True
    if a == b:
        return True
    if not exact and (math.isnan(a) != math.isnan(b)):
        # inexact mode: the two lenses differ in the last bit of a vertex
        # position, and whether a ray on the edge of failure passes is
        # decided by that bit.  (In exact mode an undefined value must be
        # undefined on both sides.)
        EDGE[0] += 1
        return True
    if exact or not (math.isfinite(a) and math.isfinite(b)):
        return False
    return abs(a - b) <= 1e-7 * max(abs(a), abs(b)) + 1e-9 * scale + extra


class Sim:
    def __init__(self, prop, hist):
        self.prop = prop
        self.hist = hist
        self.stats = {'ops': {}, 'probes': {}, 'faults': {}, 'steps': 0,
                      'oracle_checks': 0, 'state_changes': 0}
        self.rd = RunningDigest()
        self.tables = []

    def probe(self, name, n=1):
        self.stats['probes'][name] = self.stats['probes'].get(name, 0) + n

    def fault(self, name, n=1):
        self.stats['faults'][name] = self.stats['faults'].get(name, 0) + n

    def run_program(self, check=True):
        """Build the program on a fresh lens and execute the steps."""
        from optiland.tolerancing.sensitivity_analysis import SensitivityAnalysis
        from optiland.tolerancing.monte_carlo import MonteCarlo
        P = Program(self.hist, self.stats)
        self.P = P
        sens, mc = P.early_sens, P.early_mc
        tables = []
        last = None             # (object, rows) of the last completed run
        for st in self.hist['steps']:
            op = st['op']
            self.stats['ops'][op] = self.stats['ops'].get(op, 0) + 1
            self.stats['steps'] += 1
            if op == 'view':
                # looking at the results (Agg back end) must not change them
                if last is None:
                    continue
                obj, rows0 = last
                try:
                    import matplotlib.pyplot as plt
                    with quiet(), warnings.catch_warnings():
                        warnings.simplefilter('ignore')
                        try:
                            if obj is mc and st.get('what') == 'cdf':
                                obj.view_cdf()
                            elif obj is mc:
                                obj.view_histogram(kde=False)
                            else:
                                obj.view()
                        finally:
                            plt.close('all')
                except Exception as e:
                    self.probe(f'view_raised:{type(e).__name__}')
                if check:
                    rows1 = rows_of(obj)
                    self.stats['oracle_checks'] += 1
                    ok, where = same(canon(rows1), canon(rows0))
                    if not ok:
                        raise Violation(
                            'rows', 'C15/view/results-changed',
                            f'get_results() differs after viewing the '
                            f'results ({len(rows0)} rows before, '
                            f'{len(rows1)} after) at {where}')
                    self.probe('view_checked')
                continue
            if op == 'reset':
                with quiet(), warnings.catch_warnings():
                    warnings.simplefilter('ignore')
                    P.tol.reset()
                if check and P.excursion:
                    raise NotApplicable('lens left the representable domain')
                if check:
                    self.check_restored(P, 'reset')
                continue
            if op in ('apply', 'compensate'):
                # the pieces a run is made of, called by hand (public
                # methods of Tolerancing / Perturbation)
                try:
                    with simopt.patched(P.driver(st.get('seed', 0))), \
                            quiet(), warnings.catch_warnings():
                        warnings.simplefilter('ignore')
                        if op == 'apply':
                            for pert in P.tol.perturbations:
                                pert.apply()
                        else:
                            P.tol.apply_compensators()
                except Exception as e:
                    self.probe(f'manual_step_raised:{type(e).__name__}')
                self.stats['state_changes'] += 1
                continue
            try:
                with simopt.patched(P.driver(st.get('seed', 0))), quiet(), \
                        warnings.catch_warnings():
                    warnings.simplefilter('ignore')
                    if op == 'sens':
                        sens = sens or SensitivityAnalysis(P.tol)
                        sens.run()
                        obj = sens
                    else:
                        mc = mc or MonteCarlo(P.tol)
                        mc.run(st['n'])
                        obj = mc
            except Exception as e:
                # "when the run completes": a raising run is out of scope
                self.probe(f'run_raised:{type(e).__name__}')
                tables.append(None)
                continue
            self.stats['state_changes'] += 1
            rows = rows_of(obj)
            last = (obj, rows)
            tables.append(rows)
            self.rd.add([op, rows])
            if check and P.excursion:
                self.probe('compensation_excursion_to_astronomical_size')
                raise NotApplicable('lens left the representable domain')
            if check:
                self.probe(f'run_completed:{op}')
                self.check_restored(P, op)
                self.check_rows(P, op, rows)
        return tables

    # ---------------------------------------------------------------- oracles
    def check_restored(self, P, op):
        got = P.snapshot()
        self.stats['oracle_checks'] += 1
        ok, where = same(got, P.nominal, rtol=1e-12, atol=P.ztol())
        if not ok:
            key = '/'.join(x for x in where.split(':')[0].split('/')
                           if x and not x.isdigit())
            what = 'reset()' if op == 'reset' else f'{op}.run()'
            sig = f'C15/{op}/not-restored/{key}'
            if P.index_on_real_medium and 'material' in key:
                # recorded finding, identified by its trigger
                sig = 'C15/not-restored/index-variable-on-real-medium'
            raise Violation('not-restored', sig,
                            f'after {what} the lens differs from its nominal '
                            f'prescription: {where}')
        self.probe('restore_checked')
        # ... and behaves as it did: with a bit-identical prescription an
        # operand that was defined on the nominal lens must not have become
        # undefined (or the reverse)
        if P.nominal_behaviour is not None and \
                same(got, P.nominal, rtol=0, atol=0)[0]:
            now = P.behaviour()
            self.stats['oracle_checks'] += 1
            if now is None or any(math.isnan(a) != math.isnan(b)
                                  for a, b in zip(now, P.nominal_behaviour)):
                what = 'reset()' if op == 'reset' else f'{op}.run()'
                raise Violation(
                    'not-restored', f'C15/{op}/not-restored/behaviour',
                    f'after {what} the prescription reads as the nominal '
                    f'one but the operands evaluate to {now}, on the '
                    f'nominal lens to {P.nominal_behaviour}')
            self.probe('restored_behaviour_checked')

    def reference_row(self, values, trial_seed, comp_values=None):
        """Fresh nominal lens; recorded perturbation values applied through
        fresh handles; the same compensation; operands evaluated.

        comp_values: when a thickness quantity is involved the compensation
        is not re-run (its discrete decisions may flip on the round-off the
        edit history leaves in the positions); the compensator values the
        row records are applied instead."""
        R = Program(self.hist, self.stats, with_samplers=False, share=False)
        with simopt.patched(R.driver(trial_seed)), quiet(), \
                warnings.catch_warnings():
            warnings.simplefilter('ignore')
            from optiland.optimization.variable import Variable
            R.tol.reset()
            for spec, v in zip(R.pspecs, values):
                if v is None:
                    continue
                # the harness' own unscaled handle: recorded values are
                # physical quantities
                Variable(R.lens, spec['type'], apply_scaling=False,
                         **optsim.var_kwargs(spec)).update(v)
            if comp_values is None:
                comp = R.tol.apply_compensators()
            else:
                comp = {}
                for i, var in enumerate(R.tol.compensator.variables):
                    key = f'C{i}: {str(var)}'
                    var.update(comp_values[key])
                    comp[key] = comp_values[key]
                R.lens.update()
            # every operand on its own, straight from the registry (not
            # through Tolerancing.evaluate, which is under test)
            from optiland.optimization.operand import operand_registry
            vals = [operand_registry.get(o.type)(**o.input_data)
                    for o in R.tol.operands]
        return [float(v) for v in vals], \
            {k: float(v) for k, v in comp.items()}

    def check_rows(self, P, op, rows):
        tolr = P.tol
        names = [f'{i}: {o}' for i, o in enumerate(tolr.operands)]
        pnames = [str(p.variable) for p in tolr.perturbations]
        exact = not P.uses_thickness
        compare_comp = exact or not P.cspecs
        scale = 1.0 + self.P.w.model.zscale
        extra = 0.0 if exact else nr_noise(self.hist['build'])
        EDGE[0] = 0
        # nominal operand values from a fresh lens
        nominal_vals = None
        for ri, row in enumerate(rows):
            if op == 'sens':
                values = [None] * len(pnames)
                try:
                    j = pnames.index(row['perturbation_type'])
                except ValueError:
                    raise Violation('rows', 'C15/sens/rows/unknown-type',
                                    f'row {ri}: perturbation_type '
                                    f'{row["perturbation_type"]!r} is not '
                                    f'one of {pnames}')
                values[j] = row['perturbation_value']
            else:
                values = [row.get(n) for n in pnames]
                if any(v is None for v in values):
                    raise Violation('rows', 'C15/mc/rows/missing-value',
                                    f'row {ri} lacks a perturbation value: '
                                    f'{row}')
            if any(isinstance(v, float) and not math.isfinite(v)
                   for v in values if v is not None):
                continue
            comp_values = None
            if not compare_comp:
                comp_values = {k: v for k, v in row.items()
                               if k.startswith('C') and ': ' in k and
                               k.split(':')[0][1:].isdigit()}
                if any(not math.isfinite(v) for v in comp_values.values()):
                    continue
                self.probe('row_compared_with_recorded_compensation')
            try:
                ref_vals, ref_comp = self.reference_row(values, 0,
                                                        comp_values)
            except Exception as e:
                self.probe(f'reference_raised:{type(e).__name__}')
                continue
            self.stats['oracle_checks'] += 1
            for nme, rv in zip(names, ref_vals):
                if not close(row.get(nme), rv, exact, scale, extra):
                    raise Violation(
                        'rows', f'C15/{op}/rows/operand',
                        f'row {ri} of the {op} table: {nme} = '
                        f'{row.get(nme)!r}, but applying the recorded '
                        f'perturbation values {dict(zip(pnames, values))} '
                        f'to a fresh nominal lens (+ the same compensation) '
                        f'gives {rv!r}')
            for ck, cv in ref_comp.items():
                if not close(row.get(ck), cv, exact, scale):
                    raise Violation(
                        'rows', f'C15/{op}/rows/compensator',
                        f'row {ri}: compensator {ck} = {row.get(ck)!r}, '
                        f'reference {cv!r}')
            if any(math.isnan(v) for v in ref_vals):
                self.fault('trial_with_nan_operand')
            self.probe('row_compared' + ('_exact' if exact else '_tol'))
            # nominal perturbation -> nominal operand values
            specs = P.pspecs
            if all(v is None or (spec.get('nominal') is not None and
                                 v == spec['nominal'])
                   for v, spec in zip(values, specs)) and not P.cspecs:
                if nominal_vals is None:
                    try:
                        N = Program(self.hist, self.stats,
                                    with_samplers=False, share=False)
                        with quiet(), warnings.catch_warnings():
                            warnings.simplefilter('ignore')
                            nominal_vals = [float(v)
                                            for v in N.tol.evaluate()]
                    except Exception:
                        continue
                self.stats['oracle_checks'] += 1
                for nme, nv in zip(names, nominal_vals):
                    if not close(row.get(nme), nv, exact, scale, extra):
                        raise Violation(
                            'nominal', f'C15/{op}/nominal-row',
                            f'row {ri}: every perturbation equals its '
                            f'nominal value, yet {nme} = {row.get(nme)!r} '
                            f'while the nominal lens gives {nv!r}')
                self.probe('nominal_row_checked')
        if EDGE[0]:
            self.probe('inexact_nan_vs_finite_not_judged', EDGE[0])


def execute(prop, hist):
    sim = Sim(prop, hist)
    viol = None
    t1 = None
    try:
        t1 = sim.run_program(check=True)
        # reproducibility: the same program again, from scratch
        if any(t is not None for t in t1):
            sim2 = Sim(prop, hist)
            t2 = sim2.run_program(check=False)
            sim.stats['oracle_checks'] += 1
            ok, where = same(canon(t1), canon(t2))
            if not ok:
                raise Violation('repro', 'C15/run/not-reproducible',
                                f'the same program with the same sampler '
                                f'seeds produced different tables: {where}')
            sim.probe('repro_checked')
    except NotApplicable:
        sim.probe('not_applicable')
    except Violation as v:
        viol = {'class': v.cls, 'signature': v.signature, 'detail': v.detail,
                'step': sim.stats['steps'], 'property': prop}
    st = sim.stats
    ncomp = sum(v for k, v in st['probes'].items()
                if k.startswith('row_compared'))
    return {'history': hist, 'violation': viol, 'stats': st,
            'digest': sim.rd.hex(), 'step_digests': sim.rd.steps[-5:],
            'shape': digest([s['op'] for s in hist['steps']] +
                            [p['type'] for p in hist['perturbations']] +
                            [p['sampler']['kind']
                             for p in hist['perturbations']], 12),
            'final': sim.rd.steps[-1] if sim.rd.steps else '',
            'nontrivial': ncomp >= 2 and st['oracle_checks'] >= 3}


# --------------------------------------------------------------------------
def nominal_of(m, spec):
    s = m.surfs[spec['k']]
    t = spec['type']
    if t == 'radius':
        return s['radius']
    if t == 'thickness':
        return s['t']
    if t == 'conic':
        return s['conic'] or 0.0
    if t == 'index':
        return history.ref_n(s['mat'], spec['wavelength'])
    if t == 'asphere_coeff':
        return s['coeffs'][spec['coeff_number']]
    if t in ('polynomial_coeff', 'chebyshev_coeff'):
        i, j = spec['coeff_index']
        c = s['coeffs']
        return c[i][j] if i < len(c) and j < len(c[i]) else 0.0
    if t == 'tilt':
        return s['r' + spec['axis']]
    if t == 'decenter':
        return s['d' + spec['axis']]
    raise ValueError(t)


SPAN = {'radius': 0.02, 'thickness': 0.05, 'conic': 0.05, 'index': 0.002,
        'tilt': 0.003, 'decenter': 0.05}


def _seed(ch):
    """small seeds (0 and 1 are seeds like any other) and large ones"""
    return ch.pick([0, 1, 2, ch.randint(0, 9999), ch.randint(0, 2 ** 31 - 1)],
                   tag='sseed')


def gen_perturbation(ch, m, mode, harsh):
    spec = optsim.gen_variable(ch, m)
    free = [k_ for k_ in range(1, m.n - 1)
            if m.surfs[k_]['kind'] in ('polynomial', 'chebyshev')]
    if free and ch.chance(0.4):
        # coefficient tolerances on freeform surfaces, including ones whose
        # nominal value is zero
        k_ = ch.pick(free, tag='ffsurf')
        spec = {'type': {'polynomial': 'polynomial_coeff',
                         'chebyshev': 'chebyshev_coeff'}[m.surfs[k_]['kind']],
                'k': k_, 'coeff_index': [ch.randint(0, 2), ch.randint(0, 2)]}
    if spec is None:
        return None
    for k in ('min', 'max', 'scaled', 'step'):
        spec.pop(k, None)
    nom = float(nominal_of(m, spec))
    if not math.isfinite(nom):
        return None
    spec['nominal'] = nom
    t = spec['type']
    if t in ('radius',):
        span = abs(nom) * SPAN[t] * (40 if harsh else 1)
    elif t in SPAN:
        span = SPAN[t] * (20 if harsh else 1)
    else:
        span = max(abs(nom), 1e-7) * 0.1
    r = ch.rounded
    if ch.chance(0.2):
        # limits narrower than what the sampler will produce
        spec['limits'] = [r(nom - span * ch.uniform(0.05, 0.5), 8),
                          r(nom + span * ch.uniform(0.05, 0.5), 8)]
    if mode == 'sens':
        kind = 'range'
    else:
        kind = ch.weighted([('scalar', 2), ('range', 2), ('normal', 3),
                            ('uniform', 2)], tag='sampler')
    if kind == 'scalar':
        v = nom if ch.chance(0.5) else r(nom + ch.uniform(-span, span), 8)
        spec['sampler'] = {'kind': 'scalar', 'value': v}
    elif kind == 'range':
        steps = ch.pick([1, 2, 3, 5], tag='steps')
        if steps == 1 and ch.chance(0.5):
            spec['sampler'] = {'kind': 'range', 'start': nom, 'end': nom,
                               'steps': 1}
        elif steps in (3, 5) and ch.chance(0.4):
            # symmetric about the nominal value with a dyadic half-width:
            # the middle sample is the nominal value exactly
            d_ = 2.0 ** math.floor(math.log2(max(span, 1e-12)))
            spec['sampler'] = {'kind': 'range', 'start': nom - d_,
                               'end': nom + d_, 'steps': steps}
        else:
            spec['sampler'] = {'kind': 'range',
                               'start': r(nom - span * ch.uniform(0.2, 1), 8),
                               'end': r(nom + span * ch.uniform(0.2, 1), 8),
                               'steps': steps}
    elif kind == 'normal':
        spec['sampler'] = {'kind': 'normal', 'seed': _seed(ch),
                           'loc': nom, 'scale': r(span / 3, 6)}
    else:
        spec['sampler'] = {'kind': 'uniform', 'seed': _seed(ch),
                           'low': r(nom - span, 8), 'high': r(nom + span, 8)}
    return spec


def run_one(prop, run_seed, run_index, cfg):
    ch = rng.Chooser(run_seed)
    feats = lensgen.pick_features(ch, FEATS, 0.25)
    harsh = ch.chance(0.2)
    build, meta = lensgen.gen_lens(ch, feats, max_surf=6, harsh=harsh)
    w = history.World('C15', {})
    empty = {'build': build, 'operands': [], 'perturbations': [],
             'compensators': [], 'steps': []}
    try:
        for op in build:
            w.step(op)
    except (history.Violation, history.Abort):
        return execute(prop, empty)
    pre = []
    if ch.chance(0.3):
        # a nominal lens with pickups and / or a solve (made consistent by
        # one update())
        sw = {'kinds': ['pickup', 'solve'],
              'weights': {'pickup': 1, 'solve': 1}, 'nasty': 0.0}
        for _ in range(ch.randint(1, 3)):
            op = history.gen_edit(ch, w, sw)
            if op is None:
                continue
            try:
                if w.step(op):
                    pre.append(op)
            except (history.Violation, history.Abort):
                break
    m = w.model
    mode = ch.weighted([('sens', 1), ('mc', 1.5)], tag='mode')
    perts = []
    for _ in range(ch.randint(1, cfg.get('max_pert', 4))):
        p = gen_perturbation(ch, m, mode, harsh)
        if p is None:
            continue
        key = (p['type'], p['k'], p.get('coeff_number'), p.get('axis'),
               str(p.get('coeff_index')))
        if any(key == (q['type'], q['k'], q.get('coeff_number'),
                       q.get('axis'), str(q.get('coeff_index')))
               for q in perts):
            continue
        perts.append(p)
    sc = ch.side('flat-radius-tolerance')
    flats = [k_ for k_ in range(1, m.n - 1)
             if m.is_plane(k_)
             and not any(p_['dst'] == k_ for p_ in m.pickups)]
    if flats and sc.chance(0.5):
        # flatness tolerance: a radius perturbation on a plane surface (the
        # nominal value is infinite, the samples are absolute radii); after
        # the run the surface must be the plane it was
        k_ = sc.pick(flats)
        sgn = sc.pick([1, -1])
        lo = sc.rounded(sc.uniform(150, 400), 3)
        hi = sc.rounded(lo + sc.uniform(50, 600), 3)
        sp = {'type': 'radius', 'k': k_}
        if mode == 'sens' or sc.chance(0.4):
            sp['sampler'] = {'kind': 'range', 'start': sgn * lo,
                             'end': sgn * hi, 'steps': sc.pick([1, 2, 3])}
        elif sc.chance(0.5):
            sp['sampler'] = {'kind': 'scalar', 'value': sgn * lo}
        else:
            sp['sampler'] = {'kind': 'uniform', 'seed': _seed(sc),
                             'low': min(sgn * lo, sgn * hi),
                             'high': max(sgn * lo, sgn * hi)}
        if not any(q['type'] == 'radius' and q['k'] == k_ for q in perts):
            perts.append(sp)
    comps = []
    if ch.chance(0.45):
        for _ in range(ch.randint(1, 2)):
            c = optsim.gen_variable(ch, m)
            if c is None:
                continue
            if ch.chance(0.5):
                c['type'], c['k'] = 'thickness', m.n - 2   # focus
                for k in ('coeff_number', 'axis', 'wavelength',
                          'coeff_index'):
                    c.pop(k, None)
                c['step'] = 0.02
            if c['type'] in optsim.STEP:      # compensators are scaled
                c['step'] = optsim.STEP[c['type']][1]
            for k in ('min', 'max', 'scaled'):
                c.pop(k, None)
            ckey = (c['type'], c['k'], c.get('coeff_number'), c.get('axis'))
            if any(ckey == (q['type'], q['k'], q.get('coeff_number'),
                            q.get('axis')) for q in perts + comps):
                continue
            comps.append(c)
    operands = []
    for _ in range(ch.randint(1, 3)):
        o = optsim.gen_operand(ch, m)
        o.pop('target', None)
        if ch.chance(0.3):
            # an explicit target instead of "the nominal value"
            o['target'] = ch.pick([0, 0.0, ch.rounded(ch.uniform(-5, 60), 4)],
                                  tag='xtarget')
        # weight 0: an operand that is reported but not compensated for
        o['weight'] = ch.pick([1.0, 0.5, 2.0, 0, 0.0])
        if ch.chance(0.15):
            ks = [k for k in range(1, m.n - 1) if not m.is_plane(k)]
            if ks:
                k = ch.pick(ks)
                r0 = m.surfs[k]['radius']
                o['guard'] = {'k': k, 'side': ch.pick(['below', 'above']),
                              'r': ch.rounded(r0 * ch.uniform(0.97, 1.03), 6)}
        operands.append(o)
    steps = []
    for _ in range(ch.randint(1, cfg.get('max_steps', 4))):
        k = ch.weighted([('run', 4), ('reset', 1), ('manual', 0.8)],
                        tag='tstep')
        if k == 'reset':
            steps.append({'op': 'reset'})
        elif k == 'manual' and ch.chance(0.35):
            # the lens is left perturbed by hand and a run is started without
            # a reset in between (every trial resets first, so the run must
            # not see the hand-applied values)
            steps.append({'op': 'apply'})
            if mode == 'sens' and ch.chance(0.6):
                steps.append({'op': 'sens', 'seed': ch.seed32()})
            else:
                steps.append({'op': 'mc', 'n': ch.randint(1, 3),
                              'seed': ch.seed32()})
        elif k == 'manual':
            # perturb and compensate by hand, possibly more than once, then
            # reset
            steps.append({'op': 'apply'})
            for _ in range(ch.randint(1, 2)):
                steps.append({'op': 'compensate', 'seed': ch.seed32()})
            steps.append({'op': 'reset'})
        elif mode == 'sens' and ch.chance(0.6):
            steps.append({'op': 'sens', 'seed': ch.seed32()})
        else:
            steps.append({'op': 'mc', 'n': ch.randint(1, cfg.get('max_n', 5)),
                          'seed': ch.seed32()})
        if steps[-1]['op'] in ('sens', 'mc') and ch.chance(0.2):
            steps.append({'op': 'view',
                          'what': ch.pick(['histogram', 'cdf'])})
    hist = {'build': build, 'pre': pre, 'operands': operands,
            'perturbations': perts,
            'compensators': comps, 'steps': steps,
            'method': ch.pick(['generic', 'least_squares']),
            'tol': ch.pick([1e-5, 1e-3, 1e-8]),
            'driver': 'stub' if ch.chance(0.5) else 'real',
            'shrinkable': ['steps', 'perturbations', 'compensators',
                           'operands', 'pre']}
    if hist['driver'] == 'stub':
        hist['plan'] = optsim.gen_plan(ch, max(1, len(comps)),
                                       ch.randint(2, 8))
    if ch.side('early-analysis').chance(0.25):
        hist['early_analysis'] = True
    res = execute(prop, hist)
    res['draws'] = ch.ndraws
    return res


def replay(prop, hist):
    return execute(prop, hist)


def simplify(prop, hist):
    edits = []
    for i, st in enumerate(hist['steps']):
        if st.get('op') == 'mc' and st.get('n', 1) > 1:
            def e(h, i=i):
                h['steps'][i]['n'] = max(1, h['steps'][i]['n'] - 1)
                return h
            edits += [e] * 4
    for i, op in enumerate(hist['build']):
        if op.get('op') != 'add_surface':
            continue
        for key in ('aperture', 'rx', 'ry', 'dx', 'dy', 'conic'):
            if key in op:
                def e2(h, i=i, key=key):
                    h['build'][i].pop(key, None)
                    return h
                edits.append(e2)
    for i, o in enumerate(hist['operands']):
        if o.get('guard'):
            def e3(h, i=i):
                h['operands'][i].pop('guard', None)
                return h
            edits.append(e3)
    return edits
