"""Engine `history` — seeded histories of build / edit / read / checkpoint
operations on one real Optic, checked step by step against the reference
model (C01, the scale clause of C07) and against its own durable form
(C19: save, restart-from-disk, continue).

One run = one history.  Generation is online (the generator consults the
model), every operation is recorded as self-contained JSON, and replay feeds
the recorded list through the same `World.step`.
"""
import json
import math
import os
import warnings

import numpy as np

from sim import rng, lensgen, sut
from sim.canon import RunningDigest, canon, digest, same, find_opaque
from sim.model import Model, NotApplicable, strip2d, INF
from sim.sut import quiet, f
from sim.simfs import SimFS

ENGINE = 'history'
PROBE_WLS = [0.55, 0.4861327, 0.6562725]
SKIP_GUARD = os.environ.get('VERIF_SKIP_GUARD') == '1'
EPS_MACH = 2.220446049250313e-16
EPS = 1e-9


class Violation(Exception):
    """signature = '<owning property>/<op>/<clause>/<what>'.  A run for
    property P reports only violations owned by P; one owned by another
    property ends the run quietly (it is that property's check's business)."""

    def __init__(self, cls, signature, detail):
        super().__init__(signature)
        self.cls = cls
        self.signature = signature
        self.detail = detail
        self.owner = signature.split('/')[0]


class Abort(Exception):
    """The history left the domain in which the statement is defined (e.g. a
    solve on a ray with zero slope sent the lens to infinity); the run ends
    without a verdict on the remaining steps."""


def norm_msg(e):
    s = f'{type(e).__name__}:{e}'
    out = []
    for chn in s[:90]:
        out.append('#' if chn.isdigit() else chn)
    return ''.join(out).replace(' ', '_')


def numba_seed(n):
    """The scatter kernels are the only numba code in optiland.  The check
    runs them with NUMBA_DISABLE_JIT=1 (same source, interpreted): compiled,
    they spin forever on a non-finite ray, cannot be interrupted, and their
    on-disk cache makes the first call raise ReferenceError depending on what
    an earlier process left there.  Interpreted, they draw from numpy's
    global generator, which is reseeded here before each compared trace."""
    np.random.seed(n)


_REF_N = {}


def ref_n(desc, w):
    key = (json.dumps(desc), w)
    if key not in _REF_N:
        _REF_N[key] = float(sut.ref_index(desc, w))
    return _REF_N[key]


# --------------------------------------------------------------------------
# observation of the real lens (only through documented attributes)
# --------------------------------------------------------------------------
def observe(lens):
    sg = lens.surface_group
    surfs = sg.surfaces
    obs = {}
    obs['z'] = [f(v) for v in sg.positions]
    obs['radius'] = [float(v) for v in sg.radii]
    obs['conic'] = [float(v) for v in sg.conic]
    coeffs = []
    for s in surfs:
        c = getattr(s.geometry, 'c', None)
        coeffs.append(None if c is None else canon(c, squeeze1=False))
    obs['coeffs'] = coeffs
    obs['gtype'] = [type(s.geometry).__name__ for s in surfs]
    for name, attr in (('dx', 'x'), ('dy', 'y'), ('rx', 'rx'), ('ry', 'ry')):
        obs[name] = [f(getattr(s.geometry.cs, attr)) for s in surfs]
    obs['n'] = {w: [f(v) for v in lens.n(w)] for w in PROBE_WLS}
    obs['npre'] = {w: [None] + [f(s.material_pre.n(w)) for s in surfs[1:]]
                   for w in PROBE_WLS}
    obs['stop'] = [bool(s.is_stop) for s in surfs]
    obs['reflective'] = [bool(s.is_reflective) for s in surfs]
    obs['sap'] = [None if s.aperture is None else
                  [float(s.aperture.r_max), float(s.aperture.r_min)]
                  for s in surfs]
    obs['primary'] = [bool(w.is_primary) for w in lens.wavelengths.wavelengths]
    obs['aperture'] = None if lens.aperture is None else \
        [lens.aperture.ap_type, float(lens.aperture.value)]
    obs['fields'] = [[float(fl.x), float(fl.y), float(fl.vx), float(fl.vy)]
                     for fl in lens.fields.fields]
    obs['field_type'] = lens.field_type
    obs['npickups'] = len(lens.pickups)
    obs['nsolves'] = len(lens.solves)
    return obs


def _flatten(o):
    if isinstance(o, (list, tuple)):
        for v in o:
            yield from _flatten(v)
    else:
        yield o


def feq(a, b, tol=0.0):
    a, b = float(a), float(b)
    if a == b or (math.isnan(a) and math.isnan(b)):
        return True
    if math.isfinite(a) and math.isfinite(b):
        return abs(a - b) <= tol
    return False


# --------------------------------------------------------------------------
class World:
    """The system under simulation (one real lens) + its reference model."""

    def __init__(self, prop, cfg):
        from optiland.optic import Optic
        self.prop = prop
        self.cfg = cfg
        self.lens = Optic()
        self.model = Model()
        self.rd = RunningDigest()
        self.stats = {'ops': {}, 'skipped': {}, 'probes': {}, 'faults': {},
                      'steps': 0, 'oracle_checks': 0, 'state_changes': 0}
        self.target = None      # (field, k) the current op is meant to change
        self.opname = None
        self.vars = []          # live Variable handles
        self.fs = SimFS()       # durable storage for C19 checkpoints
        self.last_applied = None
        self.matcache = {}      # shared material objects of this lens
        self.nested = False
        self.saved = []         # (path, exact) of the files written so far
        self.shape = []

    # ---- helpers
    def owner(self):
        """Property that owns the oracle of the current operation."""
        if self.opname == 'scale':
            return 'C07'
        if self.opname == 'ckpt':
            return 'C19'
        return 'C01'

    def probe(self, name, n=1):
        self.stats['probes'][name] = self.stats['probes'].get(name, 0) + n

    def fault(self, name, n=1):
        self.stats['faults'][name] = self.stats['faults'].get(name, 0) + n

    def ztol(self):
        return EPS * (1.0 + self.model.zscale)

    def call(self, fn, *a, **kw):
        """A call the property says must succeed."""
        try:
            with quiet(), warnings.catch_warnings():
                warnings.simplefilter('ignore')
                return fn(*a, **kw)
        except Exception as e:   # noqa
            raise Violation('sut-exception',
                            f'{self.owner()}/{self.opname}/exception/'
                            f'{norm_msg(e)}',
                            f'{type(e).__name__}: {e}')

    def try_read(self, fn, *a, **kw):
        """A read-only call whose failure C01 says nothing about."""
        try:
            with quiet(), warnings.catch_warnings():
                warnings.simplefilter('ignore')
                return fn(*a, **kw)
        except Exception:
            self.probe('read_raised')
            return None

    # ---- one step
    def _model_print(self):
        m = self.model
        return repr((m.surfs, m.aperture, m.pickups, m.solves, m.fields,
                     m.field_type, m.wls, m.synced))

    def step(self, op):
        kind = op['op']
        self.opname = kind
        self.target = None
        h = getattr(self, 'op_' + kind, None)
        if h is None:
            raise ValueError(f'unknown op {kind}')
        guard = self._model_print() if SKIP_GUARD else None
        try:
            h(op)
        except NotApplicable:
            if guard is not None and guard != self._model_print():
                # self-test (VERIF_SKIP_GUARD=1): a skipped operation is not
                # recorded, so it must not have changed the model
                raise RuntimeError(f'skipped {kind} changed the model')
            self.stats['skipped'][kind] = \
                self.stats['skipped'].get(kind, 0) + 1
            return False
        self.stats['ops'][kind] = self.stats['ops'].get(kind, 0) + 1
        self.stats['steps'] += 1
        self.last_applied = kind
        self.shape.append(kind if kind != 'var' else 'var:' + op['type'])
        try:
            self.check_state(op)
        except Violation as v:
            if v.owner == self.prop or self.prop not in ('C19',):
                raise
            # a C19 run does not judge the model comparison (C01's oracle):
            # it is noted and the history goes on, so that what the durable
            # form makes of the situation is still seen
            self.probe('foreign:' + v.signature)
        return True

    # ---- build ops
    def _build(self, op):
        self.model.apply_build(op)      # NotApplicable before SUT is touched
        self.call(sut.apply_build, self.lens, op, self.matcache)

    def op_add_surface(self, op):
        if self.model.synced:
            op = dict(op, index=self.model.n)   # always append in index order
        if op.get('via_object') and op['index'] >= 2:
            # nested coordinate systems: vertex positions are no longer the
            # running sum the model knows (C19 only; the lens is compared
            # with its reloaded copy, not with the model), and the thickness
            # machinery (which equates local and global z) is left alone
            self.nested = True
        self._build(op)
        self.stats['state_changes'] += 1

    def op_add_wavelength(self, op):
        self._build(op)
        self.stats['state_changes'] += 1

    op_set_aperture = op_set_field_type = op_add_field = \
        op_set_polarization = op_set_telecentric = \
        lambda self, op: self._build(op)

    def need_lens(self, nmin=3):
        m = self.model
        if not m.synced and self.opname not in ('insert', 'remove', 'read',
                                                'add_wavelength', 'ckpt'):
            # after insertion / removal only the stop and primary-wavelength
            # clauses are exercised
            raise NotApplicable('placement semantics undefined')
        if m.n < nmin or not m.wls or m.aperture is None or \
                m.field_type is None or not m.fields:
            raise NotApplicable('lens not complete')

    # ---- direct setters
    def op_set_radius(self, op):
        self.need_lens()
        m = self.model
        k = m.idx(op['k'], 1, m.n - 2)
        m.set_radius(k, op['v'])
        self.target = ('radius', k)
        self.call(self.lens.set_radius, op['v'], k)
        self.stats['state_changes'] += 1

    def op_set_conic(self, op):
        self.need_lens()
        m = self.model
        k = m.idx(op['k'], 1, m.n - 2)
        m.set_conic(k, op['v'])
        self.target = ('conic', k)
        self.call(self.lens.set_conic, op['v'], k)
        self.stats['state_changes'] += 1

    def op_set_thickness(self, op):
        self.need_lens()
        m = self.model
        k = m.idx(op['k'], 0, m.n - 2)
        m.set_thickness(k, op['v'])
        self.target = ('z', None)
        self.call(self.lens.set_thickness, op['v'], k)
        self.stats['state_changes'] += 1

    def op_set_index(self, op):
        self.need_lens()
        m = self.model
        k = m.idx(op['k'], 0, m.n - 2)
        m.set_index(k, op['v'])
        self.target = ('n', k)
        self.call(self.lens.set_index, op['v'], k)
        self.stats['state_changes'] += 1

    def op_set_asphere_coeff(self, op):
        self.need_lens()
        m = self.model
        ks = [k for k in range(1, m.n - 1)
              if m.surfs[k]['kind'] == 'even_asphere' and m.surfs[k]['coeffs']]
        if not ks:
            raise NotApplicable('no asphere')
        k = ks[op['k'] % len(ks)]
        i = op['i'] % len(m.surfs[k]['coeffs'])
        m.set_asphere_coeff(k, i, op['v'])
        self.target = ('coeffs', k)
        self.call(self.lens.set_asphere_coeff, op['v'], k, i)
        self.stats['state_changes'] += 1

    # ---- variables (every type, scaled and unscaled)
    def _handle_ok(self, t, k, kw):
        """Is (type, surface, arguments) of an earlier handle still a valid
        variable on the lens as it is now?"""
        m = self.model
        if t == 'radius':
            return 1 <= k <= m.n - 2
        if t == 'conic':
            return 1 <= k <= m.n - 2 and not m.is_plane(k)
        if t == 'thickness':
            return 0 <= k <= m.n - 2 and not (k == 0 and m.infinite_object())
        if t == 'index':
            return 0 <= k <= m.n - 2
        if t == 'asphere_coeff':
            return 1 <= k <= m.n - 2 and \
                m.surfs[k]['kind'] == 'even_asphere' and \
                kw['coeff_number'] < len(m.surfs[k]['coeffs'] or [])
        if t in ('tilt', 'decenter'):
            return 1 <= k <= m.n - 1
        want = 'polynomial' if t == 'polynomial_coeff' else 'chebyshev'
        return 1 <= k <= m.n - 2 and m.surfs[k]['kind'] == want

    def op_var(self, op):
        from optiland.optimization.variable import Variable
        self.need_lens()
        m = self.model
        t = op['type']
        scaled = bool(op.get('scaled', True))
        v = op['v']
        kw = {}
        if t in ('radius',):
            k = m.idx(op['k'], 1, m.n - 2)
            field = 'radius'
        elif t == 'conic':
            ks = [j for j in range(1, m.n - 1) if not m.is_plane(j)]
            if not ks:
                raise NotApplicable('no curved surface')
            k = ks[op['k'] % len(ks)]
            field = 'conic'
        elif t == 'thickness':
            k = m.idx(op['k'], 0, m.n - 2)
            if k == 0 and m.infinite_object():
                raise NotApplicable('object at infinity')
            field = 'z'
        elif t == 'index':
            k = m.idx(op['k'], 0, m.n - 2)
            kw['wavelength'] = PROBE_WLS[op.get('wi', 0) % len(PROBE_WLS)]
            field = 'n'
        elif t == 'asphere_coeff':
            ks = [j for j in range(1, m.n - 1)
                  if m.surfs[j]['kind'] == 'even_asphere'
                  and m.surfs[j]['coeffs']]
            if not ks:
                raise NotApplicable('no asphere')
            k = ks[op['k'] % len(ks)]
            kw['coeff_number'] = op['i'] % len(m.surfs[k]['coeffs'])
            field = 'coeffs'
        elif t in ('tilt', 'decenter'):
            k = m.idx(op['k'], 1, m.n - 1)
            kw['axis'] = op.get('axis', 'x')
            field = {'tilt': 'r', 'decenter': 'd'}[t] + kw['axis']
        elif t in ('polynomial_coeff', 'chebyshev_coeff'):
            want = 'polynomial' if t == 'polynomial_coeff' else 'chebyshev'
            ks = [j for j in range(1, m.n - 1)
                  if m.surfs[j]['kind'] == want]
            if not ks:
                raise NotApplicable('no such surface')
            k = ks[op['k'] % len(ks)]
            kw['coeff_index'] = (op['i'] % 4, op['j'] % 4)
            field = 'coeffs'
        else:
            raise ValueError(t)
        var = None
        if op.get('reuse'):
            # a long-lived handle: the Variable made by an earlier step (same
            # type, any edits in between) is updated again
            for h in reversed(getattr(self, 'handles', [])):
                if h['lens'] is self.lens and h['t'] == t and \
                        self._handle_ok(t, h['k'], h['kw']):
                    k, kw, scaled, var = h['k'], dict(h['kw']), h['scaled'], \
                        h['var']
                    if t in ('tilt', 'decenter'):
                        field = {'tilt': 'r', 'decenter': 'd'}[t] + kw['axis']
                    self.probe('var_handle_reused')
                    break
        self.target = (field, k if field != 'z' else None)
        if var is None:
            var = self.call(Variable, self.lens, t, apply_scaling=scaled,
                            surface_number=k, **kw)
            if not hasattr(self, 'handles'):
                self.handles = []
            self.handles.append({'lens': self.lens, 't': t, 'k': k,
                                 'kw': dict(kw), 'scaled': scaled,
                                 'var': var})
            del self.handles[:-6]
        self.call(var.update, v)
        got = self.call(lambda: var.value)
        self.stats['state_changes'] += 1
        # read-back in the variable's own units
        tol = 1e-12 * (1 + abs(v))
        if t == 'thickness':
            tol = self.ztol()
        elif not scaled or t in ('conic', 'tilt', 'decenter',
                                 'polynomial_coeff', 'chebyshev_coeff'):
            tol = 0.0
        self.stats['oracle_checks'] += 1
        if not feq(f(got), v, tol):
            raise Violation('readback',
                            f'{self.owner()}/var:{t}/readback/value',
                            f'Variable({t}, surface {k}, scaled={scaled}, '
                            f'{kw}).update({v!r}) then .value = {f(got)!r}')
        # physical value: the model takes it from the lens for scaled
        # variables (no scale constants in the model) and requires p == v for
        # unscaled ones.
        sg = self.lens.surface_group
        if t == 'radius':
            p = float(sg.radii[k])
            m.set_radius(k, p if scaled else v)
        elif t == 'conic':
            m.set_conic(k, v)
        elif t == 'thickness':
            p = f(sg.get_thickness(k))
            m.set_thickness(k, p if scaled else v)
        elif t == 'index':
            p = f(self.lens.n(kw['wavelength'])[k])
            m.set_index(k, p if scaled else v)
        elif t == 'asphere_coeff':
            p = f(sg.surfaces[k].geometry.c[kw['coeff_number']])
            m.set_asphere_coeff(k, kw['coeff_number'], p if scaled else v)
        elif t == 'tilt':
            m.surfs[k]['r' + kw['axis']] = v
        elif t == 'decenter':
            m.surfs[k]['d' + kw['axis']] = v
        else:
            i, j = kw['coeff_index']
            m.set_poly_coeff(k, i, j, v)
        self.probe('var_' + ('scaled' if scaled else 'unscaled'))

    # ---- pickups / solves / update
    def op_pickup(self, op):
        self.need_lens(4)
        m = self.model
        attr = op['attr']
        lo, hi = 1, m.n - 2
        src = m.idx(op['src'], lo, hi)
        dst = m.idx(op['dst'], lo, hi)
        p = {'src': src, 'attr': attr, 'dst': dst, 'scale': op['scale'],
             'offset': op['offset']}
        m.add_pickup(p)
        self.target = ({'thickness': 'z'}.get(attr, attr),
                       None if attr == 'thickness' else dst)
        self.call(self.lens.pickups.add, src, attr, dst, op['scale'],
                  op['offset'])
        self.stats['state_changes'] += 1
        # "after update()": the new pickup is in the model (state compare
        # below); the set as a whole is only checked after update()

    def marginal(self):
        r = self.try_read(self.lens.paraxial.marginal_ray)
        if r is None:
            return None, None
        ya, ua = r
        ya = [f(v) for v in ya]
        ua = [f(v) for v in ua]
        return ya, ua

    def op_solve(self, op):
        self.need_lens(4)
        m = self.model
        k = m.idx(op['k'], 2, m.n - 1)
        if not m.solve_ok(k):
            raise NotApplicable('solve outside the well-founded domain')
        ya, ua = self.marginal()
        if ya is None or len(ya) != m.n or \
                not all(map(math.isfinite, ya + ua)) or \
                abs(ua[k - 1]) < 1e-4:
            raise NotApplicable('marginal ray has no usable slope there')
        h = op['h'] if 'h' in op else ya[k] * op['hf']
        h = float(h)
        self.target = ('z', None)
        self.call(self.lens.solves.add, 'marginal_ray_height', k, h)
        m.solves.append({'k': k, 'h': h})
        self.stats['state_changes'] += 1
        self.sync_solves(add=k)
        self.check_solves(only=k)

    def op_update(self, op):
        self.need_lens()
        m = self.model
        m.apply_pickups()
        self.target = ('z', None)
        self.call(self.lens.update)
        if m.pickups or m.solves:
            self.stats['state_changes'] += 1
        if m.solves:
            self.sync_solves()
        self.check_pickups()
        self.check_solves()
        if m.pickups and m.solves:
            self.probe('update_with_pickup_and_solve')

    def sync_solves(self, add=None):
        """Solves move surfaces rigidly; verify the shape of the move
        (nothing before the first solve surface moves, every segment between
        solve surfaces moves as one piece) and take the new gaps into the
        model."""
        m = self.model
        zs = [f(v) for v in self.lens.surface_group.positions]
        zm = m.positions()
        if not all(map(math.isfinite, zs[1:])):
            self.probe('abort_solve_degenerate')
            raise Abort('solve with zero incoming slope: lens at infinity')
        ks = sorted(s['k'] for s in m.solves) if add is None else [add]
        tol = self.ztol()
        self.stats['oracle_checks'] += 1
        bounds = ks + [m.n]
        for j in range(1, ks[0]):
            if not feq(zs[j], zm[j], tol):
                raise Violation('state-mismatch',
                                f'{self.owner()}/{self.opname}/frame/z',
                                f'surface {j} before the solve surface moved:'
                                f' {zm[j]!r} -> {zs[j]!r}')
        for a, b in zip(bounds[:-1], bounds[1:]):
            d0 = zs[a] - zm[a]
            for j in range(a, b):
                # positions are absolute: "rigidly" holds to the round-off
                # of where the solve has put the group (a nearly collimated
                # ray sends it 1e9 away)
                if not feq(zs[j] - zm[j], d0,
                           tol + 8 * EPS_MACH * (abs(d0) + abs(zs[j]))):
                    raise Violation('state-mismatch',
                                    f'{self.owner()}/{self.opname}/frame/z',
                                    f'surfaces {a}..{b - 1} did not move '
                                    f'rigidly: shift {d0!r} at {a}, '
                                    f'{zs[j] - zm[j]!r} at {j}')
        for k in ks:
            m.surfs[k - 1]['t'] = zs[k] - zs[k - 1]
        m._touch_scale()

    def check_pickups(self):
        m = self.model
        if not m.pickups:
            return
        sg = self.lens.surface_group
        for p in m.pickups:
            self.stats['oracle_checks'] += 1
            if p['attr'] == 'thickness':
                s = f(sg.get_thickness(p['src']))
                d = f(sg.get_thickness(p['dst']))
                tol = self.ztol() * (1 + abs(p['scale']))
            elif p['attr'] == 'radius':
                s, d, tol = float(sg.radii[p['src']]), \
                    float(sg.radii[p['dst']]), 0.0
            else:
                s, d, tol = float(sg.conic[p['src']]), \
                    float(sg.conic[p['dst']]), 0.0
            want = p['scale'] * s + p['offset']
            if not feq(d, want, tol):
                raise Violation('pickup', f'{self.owner()}/{self.opname}/pickup/'
                                f'{p["attr"]}',
                                f'pickup {p}: target {d!r} != scale*source+'
                                f'offset = {want!r}')
        self.probe('pickup_checked', len(m.pickups))

    def check_solves(self, only=None):
        m = self.model
        if not m.solves:
            return
        ya, ua = self.marginal()
        if ya is None:
            return
        for s in m.solves:
            if only is not None and s['k'] != only:
                continue
            self.stats['oracle_checks'] += 1
            k, h = s['k'], s['h']
            if not all(map(math.isfinite, ya[:k + 1] + ua[:k])):
                # no paraxial marginal ray exists (e.g. object moved onto the
                # entrance pupil): the clause has nothing to say
                self.probe('solve_marginal_undefined')
                continue
            if abs(ua[k - 1]) < 1e-4:
                # edits since the solve was added left the ray (almost)
                # parallel to the axis in front of the surface: no finite
                # move can satisfy the solve; the history has left the domain
                self.probe('abort_solve_slope_vanished')
                raise Abort('solve on a ray with vanishing slope')
            # round-off of y_k = y_(k-1) + u_(k-1) * gap
            tol = 1e-9 * (1 + abs(h) + max(abs(v) for v in ya[:k + 1]) +
                          max(abs(v) for v in ua[:k]) * (1 + m.zscale))
            if not feq(ya[k], h, tol):
                where = 'image' if k == m.n - 1 else (
                    'mirror' if m.surfs[k]['reflective'] else 'interior')
                raise Violation('solve', f'{self.owner()}/{self.opname}/solve/'
                                f'height/{where}',
                                f'marginal ray height on surface {k} is '
                                f'{ya[k]!r}, solve requested {h!r}')
        self.probe('solve_checked')

    def op_image_solve(self, op):
        self.need_lens()
        m = self.model
        ya, ua = self.marginal()
        if ya is None or not all(map(math.isfinite, ya + ua)) or \
                abs(ua[-1]) < 1e-6:
            raise NotApplicable('no finite focus')
        self.target = ('z', None)
        self.call(self.lens.image_solve)
        self.stats['state_changes'] += 1
        zs = [f(v) for v in self.lens.surface_group.positions]
        zm = m.positions()
        self.stats['oracle_checks'] += 1
        for j in range(1, m.n - 1):
            if not feq(zs[j], zm[j], self.ztol()):
                raise Violation('state-mismatch',
                                f'{self.owner()}/image_solve/frame/z',
                                f'surface {j} moved: {zm[j]!r} -> {zs[j]!r}')
        if not math.isfinite(zs[-1]):
            raise Violation('state-mismatch',
                            f'{self.owner()}/image_solve/readback/z',
                            f'image position became {zs[-1]!r}')
        m.surfs[m.n - 2]['t'] = zs[-1] - zs[-2]
        m._touch_scale()

    # ---- C07: the library's own scaling operation
    def op_scale(self, op):
        self.need_lens()
        m = self.model
        m.scale(op['s'])
        self.target = ('*', None)
        self.call(self.lens.scale_system, op['s'])
        self.stats['state_changes'] += 1
        self.probe('scale')
        if self.prop == 'C07':
            self.compare_with_scaled_twin(op)

    def compare_with_scaled_twin(self, op):
        """"... produces exactly that scaled lens": the lens must now behave
        like a lens built from scratch with the scaled prescription (what was
        traced, cached or edited before the scaling must not matter)."""
        ops = self.model.to_build_ops()
        if ops is None:
            self.probe('scaled_twin_not_expressible')
            return
        # only lenses of sane proportions: after a dozen scalings mixed with
        # palette values (radius 1e-3, gap 1e4) a "lens" has a focal length
        # of 1e-18 and every traced number is round-off
        m = self.model
        radii = [abs(s_['radius']) for s_ in m.surfs
                 if math.isfinite(s_['radius'])]
        gaps = [abs(s_['t']) for s_ in m.surfs[:-1]
                if math.isfinite(s_['t'])]
        size = sum(gaps)
        f2 = self.try_read(self.lens.paraxial.f2)
        try:
            f2 = abs(float(f2))
        except Exception:
            f2 = float('nan')
        if any(s_['conic'] is not None and abs(1 + s_['conic']) < 1e-6
               for s_ in m.surfs):
            # optiland's conic intersection solves a quadratic whose leading
            # coefficient vanishes for a paraboloid; for near-axial rays the
            # root is then rounding noise of up to 50 %, re-rolled by an ulp
            # in the vertex position
            self.probe('scaled_twin_skipped_paraboloid')
            return
        if not (1e-2 <= size <= 1e6 and
                all(1e-4 * size <= r <= 1e6 * size for r in radii) and
                math.isfinite(f2) and 1e-4 * size <= f2 <= 1e6 * size):
            self.probe('scaled_twin_skipped_lens_out_of_proportion')
            return
        try:
            twin = sut.new_lens(ops, share=False)
        except Exception:
            self.probe('scaled_twin_build_failed')
            return
        rays = op.get('rays') or [[0.0, 0.0, 0.0, 1.0, 0],
                                  [0.0, 1.0, 0.3, -0.7, 0]]
        nw = len(self.lens.wavelengths.wavelengths)
        Hx = np.array([r[0] for r in rays], dtype=float)
        Hy = np.array([r[1] for r in rays], dtype=float)
        Px = np.array([r[2] for r in rays], dtype=float)
        Py = np.array([r[3] for r in rays], dtype=float)
        w = self.lens.wavelengths.wavelengths[rays[0][4] % nw].value
        # conditioning, measured rather than guessed: a second twin whose
        # gaps are off by 1e-12 of the lens size (far more than the round-off
        # the edit history leaves in the real lens' positions) shows how much
        # the traced quantities respond to such noise
        jops = [dict(o) for o in ops]
        size = 1.0 + sum(abs(o.get('thickness', 0)) for o in jops
                         if o.get('op') == 'add_surface' and
                         math.isfinite(o.get('thickness', 0)))
        for o in jops:
            if o.get('op') == 'add_surface' and \
                    math.isfinite(o.get('thickness', 0)):
                # positions are absolute: their round-off is relative to the
                # size of the lens, not to the individual gap
                o['thickness'] = o['thickness'] + 1e-12 * size * (
                    0.5 + ((o.get('index', 0) * 7919) % 13) / 13.0)
        try:
            jtwin = sut.new_lens(jops, share=False)
        except Exception:
            self.probe('scaled_twin_build_failed')
            return
        out = []
        for L in (self.lens, twin, jtwin):
            try:
                with quiet(), warnings.catch_warnings():
                    warnings.simplefilter('ignore')
                    L.trace_generic(Hx.copy(), Hy.copy(), Px.copy(),
                                    Py.copy(), w)
                sg = L.surface_group
                out.append({q: np.array(getattr(sg, q)) for q in
                            ('x', 'y', 'z', 'L', 'M', 'N', 'opd',
                             'intensity')})
            except Exception as e:
                out.append(('raised', type(e).__name__))
        a, b, bj = out
        self.stats['oracle_checks'] += 1
        if isinstance(bj, tuple) and not isinstance(b, tuple):
            self.probe('scaled_twin_rays_failed')
            return
        if isinstance(a, tuple) or isinstance(b, tuple):
            if isinstance(a, tuple) != isinstance(b, tuple):
                raise Violation('behaviour', 'C07/scale/behaviour/raises',
                                f'trace on the scaled lens: {a if isinstance(a, tuple) else "ok"}; '
                                f'on a lens built with the scaled '
                                f'prescription: '
                                f'{b if isinstance(b, tuple) else "ok"}')
            return
        if not all(np.isfinite(v[q]).all() for v in (a, b, bj) for q in a):
            # a failing ray amplifies round-off without bound: only batches
            # in which every ray survives everywhere are compared
            self.probe('scaled_twin_rays_failed')
            return
        for q in a:
            if a[q].shape != b[q].shape:
                ok = False
            else:
                big = np.abs(b[q]).max() if b[q].size else 0.0
                resp = np.abs(b[q] - bj[q]).max() if b[q].size else 0.0
                # smooth ill-conditioning is covered by the measured
                # response; the fixed part covers the noise of the conic
                # intersection formula itself (cancellation for near-
                # parabolic surfaces: ~1e-10, not a function of the input)
                ok = bool((np.abs(a[q] - b[q]) <= 10 * resp + 1e-6 * big +
                           1e-8 * (1 + self.model.zscale)).all())
            if not ok:
                raise Violation('behaviour', f'C07/scale/behaviour/{q}',
                                f'after scale_system({op["s"]}) the lens '
                                f'traces differently from a lens built with '
                                f'the scaled prescription: {q} = '
                                f'{a[q].tolist()} vs {b[q].tolist()}')
        self.probe('scaled_twin_compared')


    # ---- C19: checkpoint = save, reload, compare, optionally restart
    def op_ckpt(self, op):
        from optiland.optic import Optic
        self.need_lens()
        m = self.model
        if not m.synced and (m.pickups or m.solves):
            # pickups / solves address surfaces by index; after an insertion
            # or removal what they mean is undefined
            raise NotApplicable('pickups on a lens of undefined placement')
        if (m.pickups or m.solves) and self.last_applied != 'update':
            # "the same prescription" is only defined for a lens whose
            # pickups are currently satisfied: checkpoint right after update()
            self.opname = 'update'
            try:
                self.op_update({'op': 'update'})
            finally:
                self.opname = 'ckpt'
        exact = not any(p['attr'] == 'thickness' for p in m.pickups)
        lens = self.lens
        mode = op.get('mode', 'dict')
        try:
            with quiet(), warnings.catch_warnings():
                warnings.simplefilter('ignore')
                d = lens.to_dict()
        except Exception as e:
            raise Violation('sut-exception',
                            f'C19/ckpt/to_dict-raises/{norm_msg(e)}',
                            f'to_dict() raised {e!r}')
        self.stats['oracle_checks'] += 1
        if mode == 'file':
            # a fresh path, or one of two paths that are written again and
            # again (a later, shorter file over an earlier, longer one)
            path = f'/sim/lens-{self.fs.writes}.json' if 'slot' not in op \
                else f'/sim/slot-{op["slot"]}.json'
            try:
                with self.fs.mounted(), quiet(), warnings.catch_warnings():
                    warnings.simplefilter('ignore')
                    from optiland.fileio import save_optiland_file
                    save_optiland_file(lens, path)
            except Exception as e:
                opq = find_opaque(d)
                what = ''
                if opq:
                    pth, typ = opq[0]
                    tail = '/'.join(x for x in pth.split('/')[-2:]
                                    if not x.isdigit())
                    what = f'/{typ}@{tail}'
                raise Violation('sut-exception',
                                f'C19/ckpt/save-raises/'
                                f'{type(e).__name__}{what}',
                                f'save_optiland_file raised {e!r}; '
                                f'non-JSON values in to_dict(): {opq[:4]}')
            try:
                with self.fs.mounted(), quiet(), warnings.catch_warnings():
                    warnings.simplefilter('ignore')
                    from optiland.fileio import load_optiland_file
                    L2 = load_optiland_file(path)
            except Exception as e:
                raise Violation('sut-exception',
                                f'C19/ckpt/load-raises/{norm_msg(e)}',
                                f'load_optiland_file raised {e!r}')
            ref = json.loads(self.fs.files[path])
            self.saved = [e for e in self.saved if e[0] != path] + \
                [(path, exact)]
            self.probe('ckpt_file')
        else:
            try:
                with quiet(), warnings.catch_warnings():
                    warnings.simplefilter('ignore')
                    L2 = Optic.from_dict(d)
            except Exception as e:
                raise Violation('sut-exception',
                                f'C19/ckpt/from_dict-raises/{norm_msg(e)}',
                                f'Optic.from_dict(lens.to_dict()) raised '
                                f'{e!r}')
            ref = d
            self.probe('ckpt_dict')
        # (a) the dictionary form of the reloaded lens equals the one it was
        #     loaded from
        try:
            with quiet(), warnings.catch_warnings():
                warnings.simplefilter('ignore')
                d2 = L2.to_dict()
        except Exception as e:
            raise Violation('sut-exception',
                            f'C19/ckpt/to_dict-raises-reloaded/{norm_msg(e)}',
                            f'to_dict() of the reloaded lens raised {e!r}')
        tol = {} if exact else {'rtol': 1e-9, 'atol': self.ztol()}
        ok, where = same(canon(d2), canon(ref), **tol)
        self.stats['oracle_checks'] += 1
        if not ok:
            key = '/'.join(x for x in where.split(':')[0].split('/')
                           if x and not x.isdigit())
            raise Violation('roundtrip', f'C19/ckpt/dict-differs/{key}',
                            f'dictionary of the reloaded lens differs from '
                            f'the one it was loaded from at {where}')
        # (b) same behaviour: rays and paraxial quantities
        J = None
        if not exact and any(
                s_.get('conic') is not None and abs(1 + s_['conic']) < 1e-6
                for s_ in self.model.surfs):
            self.probe('ckpt_inexact_paraboloid_skipped')
            return
        if not exact:
            gaps_ = sorted(abs(s_['t']) for s_ in self.model.surfs[1:-1]
                           if math.isfinite(s_['t']))
            if len(gaps_) >= 2 and gaps_[-1] > 3e3 * sum(gaps_[:-1]):
                # a solve has put part of the lens thousands of lens lengths
                # away: the ulp that the re-applied pickup may move a vertex
                # by is an ulp of that distance, and a nearly collimated
                # chief ray turns it into anything
                self.probe('ckpt_inexact_displaced_lens_skipped')
                return
        if not exact:
            # inexact mode (a thickness pickup is re-applied on load and may
            # move a vertex by an ulp): the response of every compared
            # quantity to position noise of 1e-12 x lens size is measured on
            # a third lens loaded from a jittered copy of the dictionary
            try:
                import copy as _copy
                dj = _copy.deepcopy(canon(ref))
                # ... of the lens where it actually is: a solve may have put
                # it 1e8 away from surface 1, and an ulp is relative to that
                zs_ = [abs(sd_['geometry']['cs']['z'])
                       for sd_ in dj['surface_group']['surfaces'][1:]
                       if isinstance(sd_['geometry']['cs']['z'], (int, float))
                       and math.isfinite(sd_['geometry']['cs']['z'])]
                size = 1.0 + max([self.model.zscale] + zs_)
                for k_, sd in enumerate(dj['surface_group']['surfaces']):
                    z = sd['geometry']['cs']['z']
                    if k_ >= 2 and isinstance(z, (int, float)) and \
                            math.isfinite(z):
                        # every vertex moved by its own amount, so that
                        # every gap changes
                        sd['geometry']['cs']['z'] = z + 1e-12 * size * (
                            0.5 + ((k_ * 7919) % 13) / 13.0)
                with quiet(), warnings.catch_warnings():
                    warnings.simplefilter('ignore')
                    J = Optic.from_dict(dj)
            except Exception:
                J = None
            if J is None:
                self.probe('ckpt_inexact_not_calibrated_skipped')
                return
        self.compare_behaviour(lens, L2, op, exact, J)
        if op.get('restart'):
            # crash-restart: only the durable form survives
            self.lens = L2
            self.fault('restart_from_' + mode)
            if self.stats['state_changes'] >= 5:
                self.probe('restart_after_5_edits')

    def op_sample_rt(self, op):
        """One of the bundled sample lenses (an Optic subclass whose
        constructor builds the lens), optionally with a field edited, is
        converted and restored through its own class (Sub.from_dict, as
        load_obj_from_json(Sub, path) does).  Independent of the history's
        lens and of the model."""
        import importlib
        try:
            with quiet(), warnings.catch_warnings():
                warnings.simplefilter('ignore')
                cls = getattr(importlib.import_module(
                    'optiland.samples.' + op['module']), op['name'])
                A = cls()
                if op.get('radius_trim'):
                    A.set_radius(f(A.surface_group.radii[1]) *
                                 op['radius_trim'], 1)
                d = A.to_dict()
        except Exception:
            raise NotApplicable('sample lens cannot be built')
        try:
            with quiet(), warnings.catch_warnings():
                warnings.simplefilter('ignore')
                B = cls.from_dict(d)
                d2 = B.to_dict()
        except Exception as e:
            raise Violation('sut-exception',
                            f'C19/ckpt/from_dict-raises/{norm_msg(e)}',
                            f'{op["name"]}.from_dict(lens.to_dict()) raised '
                            f'{e!r}')
        ok, where = same(canon(d2), canon(d))
        self.stats['oracle_checks'] += 1
        if not ok:
            key = '/'.join(x for x in where.split(':')[0].split('/')
                           if x and not x.isdigit())
            raise Violation('roundtrip', f'C19/ckpt/dict-differs/{key}',
                            f'{op["name"]}.from_dict(d).to_dict() differs '
                            f'from d at {where}')
        self.compare_behaviour(A, B, op, True)
        self.probe('sample_lens_round_trip_through_its_class')

    def op_reload(self, op):
        """A file written at an earlier checkpoint is loaded once more.  What
        is durable does not change because a lens loaded from it (the one the
        history went on with after a restart) has been edited since."""
        if not self.saved:
            raise NotApplicable('nothing saved yet')
        path, exact = self.saved[op.get('which', 0) % len(self.saved)]
        try:
            with self.fs.mounted(), quiet(), warnings.catch_warnings():
                warnings.simplefilter('ignore')
                from optiland.fileio import load_optiland_file
                L3 = load_optiland_file(path)
                d3 = L3.to_dict()
        except Exception as e:
            raise Violation('sut-exception',
                            f'C19/reload/load-raises/{norm_msg(e)}',
                            f'loading {path} a second time raised {e!r}')
        ref = json.loads(self.fs.files[path])
        tol = {} if exact else {'rtol': 1e-9, 'atol': self.ztol()}
        ok, where = same(canon(d3), canon(ref), **tol)
        self.stats['oracle_checks'] += 1
        if not ok:
            key = '/'.join(x for x in where.split(':')[0].split('/')
                           if x and not x.isdigit())
            raise Violation('roundtrip', f'C19/reload/dict-differs/{key}',
                            f'the lens loaded from {path} a second time '
                            f'differs from the content of the file at '
                            f'{where}')
        self.probe('reload_old_file')

    def compare_behaviour(self, A, B, op, exact, J=None):
        rays = op.get('rays') or [[0.0, 0.0, 0.0, 1.0, 0]]
        nw = len(A.wavelengths.wavelengths)
        bsdf_ks = [k for k, s in enumerate(A.surface_group.surfaces)
                   if s.bsdf is not None]

        def trace(L, w, reseed):
            Hx = np.array([r[0] for r in rays], dtype=float)
            Hy = np.array([r[1] for r in rays], dtype=float)
            Px = np.array([r[2] for r in rays], dtype=float)
            Py = np.array([r[3] for r in rays], dtype=float)
            if reseed is not None:
                numba_seed(reseed)
            try:
                with quiet(), warnings.catch_warnings():
                    warnings.simplefilter('ignore')
                    L.trace_generic(Hx, Hy, Px, Py, w)
            except Exception as e:
                return ('raised', type(e).__name__)
            sg = L.surface_group
            return {q: np.array(getattr(sg, q)) for q in
                    ('x', 'y', 'z', 'L', 'M', 'N', 'opd', 'intensity')}
        for wi in sorted({r[4] % nw for r in rays}):
            w = A.wavelengths.wavelengths[wi].value
            reseed = None
            if bsdf_ks:
                if len(bsdf_ks) > 1 or not self.bsdf_safe(A, bsdf_ks[0],
                                                          rays, w):
                    self.probe('bsdf_compare_skipped')
                    continue
                reseed = 1234 + wi
                self.probe('bsdf_compared')
            ra = trace(A, w, reseed)
            rb = trace(B, w, reseed)
            rj = trace(J, w, reseed) if J is not None else None
            self.stats['oracle_checks'] += 1
            if isinstance(ra, tuple) or isinstance(rb, tuple):
                if ra != rb:
                    raise Violation('behaviour',
                                    'C19/ckpt/behaviour/trace-raises',
                                    f'trace_generic: original {ra}, reloaded '
                                    f'{rb}')
                self.probe('ckpt_trace_raised_both')
                continue
            for q in ra:
                a, b = ra[q], rb[q]
                if a.shape != b.shape:
                    okq = False
                elif exact:
                    okq = np.array_equal(a, b, equal_nan=True)
                elif isinstance(rj, tuple) or not all(
                        np.isfinite(v[qq]).all() for v in (ra, rb, rj)
                        for qq in ra):
                    # with a thickness pickup the reloaded lens may differ
                    # from the live one by an ulp in z; next to a failing
                    # ray that ulp is amplified without bound, so only
                    # batches in which every ray survives are compared
                    okq = True
                    self.probe('ckpt_inexact_batch_with_failed_rays_skipped')
                else:
                    big = np.abs(b).max() if b.size else 0.0
                    resp = np.abs(b - rj[q]).max() if b.size and \
                        rj[q].shape == b.shape else np.inf
                    okq = bool((np.abs(a - b) <= 10 * resp + 1e-6 * big +
                                1e-8 * (1 + self.model.zscale)).all())
                if not okq:
                    raise Violation('behaviour', f'C19/ckpt/behaviour/{q}',
                                    f'{q} of traced rays differs between the '
                                    f'lens and its reloaded copy at '
                                    f'{w} um: {a.tolist()} vs {b.tolist()}')
            if not np.isfinite(ra['y'][-1]).all():
                self.probe('ckpt_rays_failed')
            self.probe('ckpt_rays_compared', len(rays))
        for name in ('f2', 'F2', 'EPL', 'EPD', 'XPL', 'FNO', 'marginal_ray',
                     'chief_ray'):
            va = self.paraxial_value(A, name)
            vb = self.paraxial_value(B, name)
            self.stats['oracle_checks'] += 1
            if exact:
                tol = {}
            else:
                vj = self.paraxial_value(J, name)
                fa = [x for x in _flatten(vb) if isinstance(x, float)]
                fj = [x for x in _flatten(vj) if isinstance(x, float)]
                if len(fa) != len(fj) or not all(
                        math.isfinite(x) for x in fa + fj):
                    self.probe('ckpt_inexact_paraxial_skipped')
                    continue
                resp = max([abs(x - y) for x, y in zip(fa, fj)] + [0.0])
                tol = {'rtol': 1e-6, 'atol': 10 * resp + 1e-9 * (
                    1 + max([abs(x) for x in fa] + [0.0]))}
            ok, where = same(va, vb, **tol)
            if not ok:
                raise Violation('behaviour', f'C19/ckpt/behaviour/paraxial',
                                f'paraxial {name} differs: {va} vs {vb}')

    def paraxial_value(self, L, name):
        try:
            with quiet(), warnings.catch_warnings():
                warnings.simplefilter('ignore')
                return canon(getattr(L.paraxial, name)())
        except Exception as e:
            return ['raised', type(e).__name__]

    def bsdf_safe(self, L, k, rays, w):
        """Scatter code spins forever on a non-finite ray; compare lenses
        with a scatter model only if every ray reaches and leaves the
        (single) scattering surface finite, established on the same lens
        with the scatter model switched off."""
        surf = L.surface_group.surfaces[k]
        keep = surf.bsdf
        surf.bsdf = None
        try:
            Hx = np.array([r[0] for r in rays], dtype=float)
            Hy = np.array([r[1] for r in rays], dtype=float)
            Px = np.array([r[2] for r in rays], dtype=float)
            Py = np.array([r[3] for r in rays], dtype=float)
            with quiet(), warnings.catch_warnings():
                warnings.simplefilter('ignore')
                L.trace_generic(Hx, Hy, Px, Py, w)
            sg = L.surface_group
            ok = all(np.isfinite(np.array(getattr(sg, q))[:k + 1]).all()
                     for q in ('x', 'y', 'z', 'L', 'M', 'N'))
        except Exception:
            ok = False
        finally:
            surf.bsdf = keep
        return ok


    # ---- C19: a short optimisation as one more edit (stub driver)
    def op_optimize(self, op):
        from optiland.optimization import (OptimizationProblem,
                                           OptimizerGeneric, LeastSquares)
        from sim import simopt
        self.need_lens()
        m = self.model
        prob = OptimizationProblem()
        used = []
        with quiet(), warnings.catch_warnings():
            warnings.simplefilter('ignore')
            prob.add_operand('f2', op.get('target', 50.0), 1,
                             {'optic': self.lens})
            for v in op['vars']:
                t = v['type']
                k = m.idx(v['k'], 1, m.n - 2)
                if t in ('radius', 'conic') and m.is_plane(k):
                    continue
                if t == 'index' and m.surfs[k]['mat'][0] not in ('ideal',
                                                                 'air'):
                    continue
                if any(p['attr'] == t and p['dst'] == k for p in m.pickups) \
                        or (t == 'thickness' and any(
                            s['k'] - 1 == k for s in m.solves)):
                    continue
                kw = {'surface_number': k}
                if t == 'index':
                    kw['wavelength'] = PROBE_WLS[0]
                if t in ('tilt', 'decenter'):
                    kw['axis'] = v.get('axis', 'x')
                prob.add_variable(self.lens, t,
                                  apply_scaling=bool(v.get('scaled', True)),
                                  **kw)
                used.append((t, k, kw))
        if not used:
            raise NotApplicable('no admissible variable')
        drv = simopt.StubDriver(op.get('plan', []),
                                [v.get('step', 1e-3) for v in op['vars']],
                                self.stats['probes'])
        cls = LeastSquares if op.get('front') == 'lsq' else OptimizerGeneric
        try:
            with simopt.patched(drv), quiet(), warnings.catch_warnings():
                warnings.simplefilter('ignore')
                cls(prob).optimize(disp=False)
        except Exception:
            self.probe('optimize_edit_raised')
        self.stats['state_changes'] += 1
        self.probe('optimize_edit')
        # the model follows the lens for what the optimiser touched (C19
        # compares the lens with its reloaded copy, not with the model)
        sg = self.lens.surface_group
        zs = [f(v) for v in sg.positions]
        if not all(map(math.isfinite, zs[1:])):
            raise Abort('optimiser left the lens at infinity')
        for k in range(1, m.n - 1):
            m.surfs[k]['t'] = zs[k + 1] - zs[k]
        for t, k, kw in used:
            surf = sg.surfaces[k]
            if t == 'radius':
                m.set_radius(k, float(sg.radii[k]))
            elif t == 'conic':
                m.surfs[k]['conic'] = float(sg.conic[k])
            elif t == 'index':
                m.surfs[k]['mat'] = ['ideal', f(self.lens.n(PROBE_WLS[0])[k]),
                                     0]
            elif t == 'tilt':
                m.surfs[k]['r' + kw['axis']] = f(getattr(
                    surf.geometry.cs, 'r' + kw['axis']))
            elif t == 'decenter':
                m.surfs[k]['d' + kw['axis']] = f(getattr(
                    surf.geometry.cs, kw['axis']))
        if m.pickups or m.solves:
            # update_optics ran inside the objective: take the result over
            for k in range(1, m.n - 1):
                if not m.is_plane(k) or math.isfinite(float(sg.radii[k])):
                    if math.isfinite(float(sg.radii[k])):
                        m.set_radius(k, float(sg.radii[k]))
                    if m.surfs[k]['conic'] is not None:
                        m.surfs[k]['conic'] = float(sg.conic[k])
        m._touch_scale()


    # ---- injected faults: calls the library documents as rejected.  A
    #      rejected call must leave no trace (the model does not change).
    def op_bad_call(self, op):
        kind = op['kind']
        lens = self.lens
        m = self.model
        self.target = None
        if kind in ('pickup_attr', 'solve_type', 'var_type', 'set_index_range',
                    'asphere_on_sphere'):
            self.need_lens(4)

        if 'surface' in op:
            op = dict(op, surface={k: v for k, v in op['surface'].items()
                                   if k != 'share'})

        def attempt():
            if kind == 'surface_type':
                sut.apply_build(lens, dict(op['surface'], index=m.n,
                                           stype='no_such_surface_type'),
                                self.matcache)
            elif kind == 'glass_name':
                sut.apply_build(lens, dict(
                    op['surface'], index=m.n,
                    material=['glass_str', 'NoSuchGlassXQZ17']), self.matcache)
            elif kind == 'index_beyond_end':
                sut.apply_build(lens, dict(op['surface'], index=m.n + 2),
                                self.matcache)
            elif kind == 'pickup_attr':
                lens.pickups.add(m.idx(op.get('src', 1), 1, m.n - 2),
                                 'diameter',
                                 m.idx(op.get('dst', 2), 1, m.n - 2),
                                 op.get('scale', 1.0), op.get('offset', 0.0))
            elif kind == 'solve_type':
                lens.solves.add('chief_ray_angle',
                                m.idx(op.get('k', 2), 2, m.n - 1), 0.5)
            elif kind == 'var_type':
                from optiland.optimization.variable import Variable
                Variable(lens, 'curvature', surface_number=1)
            elif kind == 'wavelength_unit':
                lens.add_wavelength(0.55, unit='furlong')
            elif kind == 'aperture_type':
                lens.set_aperture('pupil', 3.0)
            else:
                raise ValueError(kind)
        try:
            with quiet(), warnings.catch_warnings():
                warnings.simplefilter('ignore')
                attempt()
        except Exception:
            self.fault('rejected_call:' + kind)
            return
        # the call was accepted: then it is simply not the fault we meant to
        # inject; the state comparison that follows decides nothing for it
        self.probe('bad_call_accepted:' + kind)
        raise Abort('injected call was not rejected')

    # ---- structure edits with no documented placement semantics
    def op_insert(self, op):
        self.need_lens()
        m = self.model
        k = m.idx(op['index'], 1, m.n - 1)
        sop = dict(op, op='add_surface', index=k)
        self.call(sut.apply_build, self.lens, sop)
        m.synced = False
        if sop.get('stop'):
            for s in m.surfs:
                s['stop'] = False
        m.surfs.insert(k, {'stop': bool(sop.get('stop'))})
        self.stats['state_changes'] += 1
        self.probe('insert')

    def op_remove(self, op):
        self.need_lens(4)
        m = self.model
        k = m.idx(op['k'], 1, m.n - 2)
        self.call(self.lens.surface_group.remove_surface, k)
        m.synced = False
        del m.surfs[k]
        self.stats['state_changes'] += 1
        self.probe('remove')

    # ---- read-only interference (model effect: nothing)
    def op_read(self, op):
        self.need_lens()
        lens = self.lens
        what = op['what']
        wl = self.try_read(lambda: lens.primary_wavelength)
        if wl is None:
            raise NotApplicable('no wavelength')
        if what == 'trace':
            self.try_read(lens.trace, op.get('Hx', 0.0), op.get('Hy', 0.0),
                          wl, op.get('num_rays', 6),
                          op.get('dist', 'hexapolar'))
        elif what == 'trace_generic':
            self.try_read(lens.trace_generic, 0.0, op.get('Hy', 0.0),
                          op.get('Px', 0.0), op.get('Py', 0.0), wl)
        elif what == 'paraxial':
            for name in op.get('names', ['f2']):
                self.try_read(getattr(lens.paraxial, name))
        elif what == 'aberr':
            self.try_read(lens.aberrations.seidels)
        elif what == 'to_dict':
            self.try_read(lens.to_dict)
        elif what == 'update_paraxial':
            self.try_read(lens.update_paraxial)
        elif what == 'paraxial_trace':
            self.try_read(lens.paraxial.trace, op.get('Hy', 0.0),
                          op.get('Py', 1.0), wl)
        else:
            raise ValueError(what)

    # ---- the per-step oracle
    def check_state(self, op):
        m = self.model
        try:
            with warnings.catch_warnings():
                warnings.simplefilter('ignore')
                obs = observe(self.lens)
        except Exception as e:
            raise Violation('sut-exception',
                            f'{self.owner()}/{self.opname}/observe/{norm_msg(e)}',
                            f'observing the lens failed: {e!r}')
        self.rd.add([self.opname, obs])
        P = self.owner()
        name = self.opname
        if name == 'var':
            name = 'var:' + op['type']

        def bad(clause, field, detail):
            raise Violation('state-mismatch', f'{P}/{name}/{clause}/{field}',
                            detail)
        # --- always: at most one stop, exactly one primary wavelength
        self.stats['oracle_checks'] += 1
        if sum(obs['stop']) > 1:
            bad('stop', 'count', f'{sum(obs["stop"])} surfaces flagged as '
                f'aperture stop: {obs["stop"]}')
        if obs['primary'] and sum(obs['primary']) != 1:
            bad('primary', 'count', f'primary flags {obs["primary"]}')
        if obs['stop'] != [bool(s['stop']) for s in m.surfs]:
            bad('stop', 'which', f'stop flags {obs["stop"]}, expected '
                f'{[bool(s["stop"]) for s in m.surfs]}')
        if not m.synced or self.nested:
            return
        exp = m.expected()
        if obs['primary'] != exp['primary']:
            bad('primary', 'which', f'{obs["primary"]} != {exp["primary"]}')
        n = m.n
        if len(obs['z']) != n:
            bad('frame', 'nsurf', f'{len(obs["z"])} surfaces, expected {n}')
        tgt = self.target or (None, None)

        def clause(field, k):
            if tgt[0] == '*':
                return 'scaled'
            if tgt[0] == field and (tgt[1] is None or tgt[1] == k):
                return 'readback'
            return 'frame'
        ztol = self.ztol()
        for k in range(n):
            if not feq(obs['z'][k], exp['z'][k], ztol):
                bad(clause('z', k), 'z',
                    f'vertex of surface {k} at {obs["z"][k]!r}, running sum '
                    f'of thicknesses is {exp["z"][k]!r} (all: {obs["z"]} vs '
                    f'{exp["z"]})')
        for field in ('radius', 'conic', 'dx', 'dy', 'rx', 'ry'):
            for k in range(n):
                if not feq(obs[field][k], exp[field][k]):
                    bad(clause(field, k), field,
                        f'{field} of surface {k} is {obs[field][k]!r}, '
                        f'expected {exp[field][k]!r}')
        for k in range(n):
            ec, oc = exp['coeffs'][k], obs['coeffs'][k]
            if ec is None:
                continue
            kind = m.surfs[k]['kind']
            if kind == 'even_asphere':
                ok = oc is not None and len(oc) == len(ec) and \
                    all(feq(a, b) for a, b in zip(oc, ec))
            else:
                ok = oc is not None and strip2d(oc) == strip2d(ec)
            if not ok:
                bad(clause('coeffs', k), 'coeffs',
                    f'coefficients of surface {k} are {oc!r}, expected '
                    f'{ec!r}')
        for w in PROBE_WLS:
            for k in range(n):
                want = ref_n(exp['mat'][k], w)
                if not feq(obs['n'][w][k], want):
                    bad(clause('n', k), 'n',
                        f'index behind surface {k} at {w} um is '
                        f'{obs["n"][w][k]!r}, medium given is '
                        f'{exp["mat"][k]} (n={want!r})')
            for k in range(1, n):
                if not feq(obs['npre'][w][k], obs['n'][w][k - 1]):
                    bad('chain', 'medium',
                        f'medium in front of surface {k} has n='
                        f'{obs["npre"][w][k]!r} at {w} um but the medium '
                        f'behind surface {k - 1} has n={obs["n"][w][k - 1]!r}')
        if obs['reflective'] != exp['reflective']:
            bad('frame', 'reflective', f'{obs["reflective"]}')
        for k in range(n):
            a, b = obs['sap'][k], exp['sap'][k]
            if (a is None) != (b is None) or (a and not (
                    feq(a[0], b[0]) and feq(a[1], b[1]))):
                bad(clause('sap', k), 'surface_aperture',
                    f'aperture of surface {k} is {a}, expected {b}')
        if obs['fields'] != [[float(v) for v in fl] for fl in m.fields] or \
                obs['field_type'] != m.field_type:
            bad(clause('fields', None), 'fields',
                f'fields {obs["field_type"]} {obs["fields"]}, expected '
                f'{m.field_type} {m.fields}')
        if obs['npickups'] != len(m.pickups) or \
                obs['nsolves'] != len(m.solves):
            bad('frame', 'managers',
                f'{obs["npickups"]} pickups / {obs["nsolves"]} solves '
                f'registered, expected {len(m.pickups)} / {len(m.solves)}')
        if exp['aperture'] is not None and (
                obs['aperture'] is None or
                obs['aperture'][0] != exp['aperture'][0] or
                not feq(obs['aperture'][1], exp['aperture'][1])):
            bad(clause('aperture', None), 'aperture',
                f'system aperture {obs["aperture"]}, expected '
                f'{exp["aperture"]}')


# --------------------------------------------------------------------------
# generation
# --------------------------------------------------------------------------
EDIT_KINDS = ['set_radius', 'set_conic', 'set_thickness', 'set_index',
              'set_asphere_coeff', 'var', 'pickup', 'solve', 'update',
              'image_solve', 'add_wavelength', 'read', 'bad_call']
VAR_TYPES = ['radius', 'conic', 'thickness', 'index', 'asphere_coeff',
             'tilt', 'decenter', 'polynomial_coeff', 'chebyshev_coeff']


def value_for(ch, kind, cur, nasty):
    """Palette: ordinary magnitudes, exact repeats, sign flips, tiny / large
    finite magnitudes, python ints."""
    r = ch.rounded
    if cur is not None and math.isfinite(cur) and ch.chance(0.08):
        return cur
    if cur is not None and math.isfinite(cur) and cur != 0 and \
            ch.chance(0.08):
        # a trim far smaller than the value itself is still an edit
        return cur * (1 + ch.pick([2e-6, -3e-7, 1e-9], tag='trim'))
    if cur is not None and math.isfinite(cur) and ch.chance(0.05):
        return -cur
    wild = ch.chance(nasty)
    if kind == 'radius':
        if wild:
            return ch.pick([1e-3, -1e-3, 1e6, -1e6, 50, -7, 0.5], tag='pal')
        v = r(ch.loguniform(8, 800))
        return v if ch.chance(0.5) else -v
    if kind == 'conic':
        if wild:
            return ch.pick([0, -1, 1, -50.0, 20.0, 1e-9, 2], tag='pal')
        return r(ch.uniform(-3, 1.5), 4)
    if kind == 'thickness':
        if wild:
            return ch.pick([0, 0.0, 1e-6, 1e4, -3.5, 7, -0.25], tag='pal')
        return r(ch.uniform(0.1, 40))
    if kind == 'index':
        if wild:
            return ch.pick([1, 1.0, 2, 3.5, 1.000001, 0.9], tag='pal')
        return r(ch.uniform(1.0, 2.2), 5)
    if kind == 'asphere':
        if wild:
            return ch.pick([0, 0.0, 1e-3, -1e-12, 1, 3.1e-13, -8.5e-16,
                            2e-15], tag='pal')
        return r(ch.uniform(-1, 1) * 10.0 ** (-ch.randint(4, 9)), 4)
    if kind == 'tilt':
        if wild:
            return ch.pick([0, 0.0, 0.3, -0.3, 1e-9], tag='pal')
        return r(ch.uniform(-0.1, 0.1), 3)
    if kind == 'decenter':
        if wild:
            return ch.pick([0, 0.0, 5, -5.0, 1e-6], tag='pal')
        return r(ch.uniform(-1, 1), 3)
    raise ValueError(kind)


def gen_edit(ch, w, sw):
    """One edit / read operation drawn for the current model state."""
    m = w.model
    kinds = sw['kinds'] if m.synced else \
        ['insert', 'remove', 'read', 'add_wavelength'] + \
        (['ckpt'] if 'ckpt' in sw['kinds'] else [])
    if w.nested:
        kinds = [k_ for k_ in kinds if k_ in (
            'set_radius', 'set_conic', 'set_index', 'read', 'ckpt',
            'add_wavelength', 'bad_call', 'set_asphere_coeff')] or ['ckpt']
    kind = ch.weighted([(k, sw['weights'].get(k, 0.5)) for k in kinds],
                       tag='kind')
    n = m.n
    nasty = sw['nasty']
    if kind == 'set_radius':
        k = ch.randint(1, n - 2)
        return {'op': kind, 'k': k,
                'v': value_for(ch, 'radius', m.surfs[k]['radius'], nasty)}
    if kind == 'set_conic':
        ks = [j for j in range(1, n - 1) if not m.is_plane(j)]
        if not ks:
            return None
        k = ch.pick(ks)
        return {'op': kind, 'k': k,
                'v': value_for(ch, 'conic', m.surfs[k]['conic'], nasty)}
    if kind == 'set_thickness':
        lo = 1 if m.infinite_object() else 0
        k = ch.randint(lo, n - 2)
        return {'op': kind, 'k': k,
                'v': value_for(ch, 'thickness', m.surfs[k]['t'], nasty)}
    if kind == 'set_index':
        k = ch.randint(0 if ch.chance(0.1) else 1, n - 2)
        return {'op': kind, 'k': k, 'v': value_for(ch, 'index', None, nasty)}
    if kind == 'set_asphere_coeff':
        return {'op': kind, 'k': ch.randint(0, 5), 'i': ch.randint(0, 2),
                'v': value_for(ch, 'asphere', None, nasty)}
    if kind == 'var':
        avail = ['radius', 'thickness', 'index', 'tilt', 'decenter']
        if any(not m.is_plane(j) for j in range(1, n - 1)):
            avail.append('conic')
        kinds_present = {s['kind'] for s in m.surfs}
        if 'even_asphere' in kinds_present:
            avail += ['asphere_coeff'] * 2
        if 'polynomial' in kinds_present:
            avail += ['polynomial_coeff'] * 2
        if 'chebyshev' in kinds_present:
            avail += ['chebyshev_coeff'] * 2
        t = ch.pick(avail, tag='vtype')
        op = {'op': 'var', 'type': t, 'scaled': ch.chance(0.5),
              'k': ch.randint(0, n - 1)}
        if t == 'thickness':
            op['k'] = ch.randint(1 if m.infinite_object() else 0, n - 2)
        pal = {'radius': 'radius', 'conic': 'conic',
               'thickness': 'thickness', 'index': 'index',
               'asphere_coeff': 'asphere', 'tilt': 'tilt',
               'decenter': 'decenter', 'polynomial_coeff': 'asphere',
               'chebyshev_coeff': 'asphere'}[t]
        if op['scaled']:
            # scaled units are dimensionless and of order one
            op['v'] = ch.rounded(ch.uniform(-0.9, 3.0), 5)
            if t == 'index':
                op['v'] = ch.rounded(ch.uniform(-0.4, 0.6), 5)
            if t in ('tilt',):
                op['v'] = value_for(ch, 'tilt', None, nasty)
            if t in ('polynomial_coeff', 'chebyshev_coeff'):
                op['v'] = value_for(ch, 'asphere', None, nasty)
        else:
            op['v'] = value_for(ch, pal, None, nasty)
        if t == 'index':
            op['wi'] = ch.randint(0, 2)
        if t in ('asphere_coeff',):
            op['i'] = ch.randint(0, 2)
        if t in ('tilt', 'decenter'):
            op['axis'] = ch.pick(['x', 'y'])
        if t in ('polynomial_coeff', 'chebyshev_coeff'):
            op['i'] = ch.randint(0, 3)
            op['j'] = ch.randint(0, 3)
        if ch.side(f'var-reuse:{w.stats["steps"]}').chance(0.4):
            op['reuse'] = True
        return op
    if kind == 'pickup':
        if n < 4:
            return None
        attr = ch.pick(['radius', 'conic', 'thickness'], tag='pattr')
        for _ in range(6):
            src, dst = ch.randint(1, n - 2), ch.randint(1, n - 2)
            if m.pickup_ok(src, attr, dst):
                sc = ch.pick([1, -1, 1.0, -1.0, 2, 0.5, 0, 0.0,
                              ch.rounded(ch.uniform(-2, 2), 3)], tag='psc')
                off = ch.pick([0, 0.0, ch.rounded(ch.uniform(-3, 3), 3)],
                              tag='poff')
                if sc == 0:
                    # a constant pickup: target = offset
                    if attr == 'radius':
                        if m.is_plane(src):
                            continue
                        off = ch.rounded(ch.uniform(20, 200), 4) * \
                            ch.pick([1, -1])
                    elif attr == 'thickness':
                        off = ch.rounded(ch.uniform(0.5, 20), 4)
                return {'op': 'pickup', 'src': src, 'attr': attr, 'dst': dst,
                        'scale': sc, 'offset': off}
        return None
    if kind == 'solve':
        ks = [k for k in range(2, n) if m.solve_ok(k)]
        if not ks:
            return None
        k = ch.pick(ks)
        if ch.chance(0.5):
            return {'op': 'solve', 'k': k,
                    'h': ch.rounded(ch.uniform(-3, 3), 4)}
        return {'op': 'solve', 'k': k,
                'hf': ch.rounded(ch.uniform(0.2, 1.5), 3)}
    if kind == 'update':
        return {'op': 'update'}
    if kind == 'image_solve':
        return {'op': 'image_solve'}
    if kind == 'add_wavelength':
        return {'op': 'add_wavelength',
                'value': ch.rounded(ch.uniform(0.42, 0.7), 4),
                'primary': ch.chance(0.4)}
    if kind == 'read':
        what = ch.pick(['trace', 'trace_generic', 'paraxial', 'paraxial',
                        'aberr', 'to_dict', 'update_paraxial',
                        'paraxial_trace'], tag='read')
        op = {'op': 'read', 'what': what}
        if what == 'trace':
            op.update(Hy=ch.pick([0.0, 1.0, 0.7]), num_rays=ch.randint(2, 6),
                      dist=ch.pick(['hexapolar', 'line_y', 'random',
                                    'uniform', 'cross']))
        elif what in ('trace_generic', 'paraxial_trace'):
            op.update(Hy=ch.pick([0.0, 1.0]), Px=ch.pick([0.0, 0.5]),
                      Py=ch.pick([0.0, 1.0, -1.0]))
        elif what == 'paraxial':
            op['names'] = ch.subset(['f1', 'f2', 'F1', 'F2', 'P1', 'P2', 'N1',
                                     'N2', 'EPL', 'EPD', 'XPL', 'XPD', 'FNO',
                                     'magnification', 'invariant',
                                     'marginal_ray', 'chief_ray'], 0.25,
                                    at_least=1)
        return op
    if kind == 'bad_call':
        return {'op': 'bad_call', 'kind': ch.pick(
            ['pickup_attr', 'solve_type', 'var_type', 'aperture_type',
             'wavelength_unit'], tag='badkind'),
            'src': ch.randint(1, 6), 'dst': ch.randint(1, 6),
            'k': ch.randint(2, 8)}
    if kind == 'optimize':
        from engines import optsim
        vs = []
        for _ in range(ch.randint(1, 3)):
            t = ch.pick(['radius', 'thickness', 'conic', 'index', 'tilt',
                         'decenter'], tag='ovar')
            sc = ch.chance(0.5)
            v = {'type': t, 'k': ch.randint(1, max(1, n - 2)), 'scaled': sc,
                 'step': optsim.STEP[t][1 if sc else 0]}
            if t in ('tilt', 'decenter'):
                v['axis'] = ch.pick(['x', 'y'])
            vs.append(v)
        return {'op': 'optimize', 'vars': vs,
                'front': ch.pick(['generic', 'lsq']),
                'target': ch.rounded(ch.uniform(20, 200), 4),
                'plan': optsim.gen_plan(ch, len(vs), ch.randint(1, 6))}
    if kind == 'ckpt':
        sc = ch.side(f'sample-rt:{w.stats["steps"]}')
        if sc.chance(0.06):
            mod, name = sc.pick(sut.SAMPLES)
            op = {'op': 'sample_rt', 'module': mod, 'name': name,
                  'rays': [[0.0, sc.pick([0.0, 0.7, 1.0]),
                            sc.rounded(sc.uniform(-0.6, 0.6), 3),
                            sc.rounded(sc.uniform(-0.6, 0.6), 3), 0]
                           for _ in range(3)]}
            if sc.chance(0.4):
                op['radius_trim'] = sc.rounded(sc.uniform(0.98, 1.02), 4)
            return op
    if kind == 'ckpt' and w.saved and ch.chance(0.2):
        return {'op': 'reload', 'which': ch.randint(0, len(w.saved) - 1)}
    if kind == 'ckpt':
        nr = ch.randint(2, 7)
        rays = []
        for _ in range(nr):
            rays.append([0.0, ch.pick([0.0, 0.7, 1.0, -1.0]),
                         ch.rounded(ch.uniform(-1, 1), 3),
                         ch.rounded(ch.uniform(-1, 1), 3), ch.randint(0, 2)])
        op = {'op': 'ckpt', 'mode': ch.pick(['dict', 'file']),
              'restart': ch.chance(0.3), 'rays': rays}
        sc = ch.side(f'ckpt-slot:{w.stats["steps"]}')
        if op['mode'] == 'file' and sc.chance(0.5):
            op['slot'] = sc.randint(0, 1)
        return op
    if kind == 'scale':
        s = ch.rounded(ch.loguniform(0.01, 100), 4)
        if sw.get('last_scale') and ch.chance(0.3):
            s = 1.0 / sw['last_scale']
        sc = ch.side(f'scale-near-one:{w.stats["steps"]}')
        if sc.chance(0.06):
            # thermal-expansion sized factors
            s = 1.0 + sc.pick([7.08e-06, -2.5e-06, 9.9e-06, 1e-07])
        sw['last_scale'] = s
        rays = [[0.0, ch.pick([0.0, 0.7, 1.0, -1.0]),
                 ch.rounded(ch.uniform(-1, 1), 3),
                 ch.rounded(ch.uniform(-1, 1), 3), 0]
                for _ in range(ch.randint(3, 9))]
        return {'op': 'scale', 's': s, 'rays': rays}
    if kind == 'insert':
        k = ch.randint(1, n - 1)
        op = {'op': 'insert', 'index': k,
              'radius': lensgen._radius(ch), 'thickness':
              ch.rounded(ch.uniform(0.5, 5)), 'material':
              ch.pick([['air'], ['ideal', 1.6, 0]]), 'stop': ch.chance(0.4)}
        if ch.chance(0.35):
            # handed over as a ready-made Surface object
            # (add_surface(new_surface=...)) in the lens's own frame
            op['via_object'] = {'gap': 0.0}
        return op
    if kind == 'remove':
        if n < 4:
            return None
        return {'op': 'remove', 'k': ch.randint(1, n - 2)}
    raise ValueError(kind)


C07_FEATS = ['conic', 'tilt', 'mirror', 'glass', 'abbe', 'absorb',
             'finite_obj', 'vignette', 'aperture', 'multi_wl', 'fno', 'na',
             'planes', 'stop_any', 'glass_str', 'units', 'int_lengths']
C19_FEATS = [x for x in lensgen.ALL_FEATURES if x != 'bsdf']
C01_FEATS = [x for x in lensgen.ALL_FEATURES
             if x not in ('bsdf', 'coat_simple', 'coat_fresnel', 'polarized',
                          'telecentric', 'nested_cs')]


def swarm(ch, prop, cfg):
    """Per-run configuration drawn from the chooser."""
    sw = {}
    if prop == 'C07':
        feats = lensgen.pick_features(ch, C07_FEATS, 0.3)
        kinds = ['scale', 'set_radius', 'set_conic', 'set_thickness',
                 'set_index', 'var', 'read', 'image_solve', 'add_wavelength']
        enabled = ['scale'] + ch.subset(kinds[1:], 0.5)
        weights = {k: ch.uniform(0.3, 2.0) for k in enabled}
        weights['scale'] = ch.uniform(2.0, 5.0)
        sc = ch.side('c07-pickups')
        if sc.chance(0.3):
            # lenses that carry pickups (with offsets) when they are scaled
            enabled += ['pickup', 'update']
            weights['pickup'] = sc.uniform(0.5, 1.5)
            weights['update'] = sc.uniform(0.2, 0.8)
    elif prop == 'C19':
        feats = lensgen.pick_features(ch, C19_FEATS, 0.3)
        if 'bsdf' in lensgen.ALL_FEATURES and ch.chance(0.08):
            feats.add('bsdf')
        kinds = list(EDIT_KINDS) + ['scale', 'optimize']
        enabled = ['ckpt'] + ch.subset(kinds, 0.5, at_least=1)
        weights = {k: ch.uniform(0.3, 2.0) for k in enabled}
        weights['ckpt'] = ch.uniform(1.0, 3.0)
        sc = ch.side('c19-insert-remove')
        if sc.chance(0.3):
            # surfaces taken out of / put into the finished lens through the
            # public surface-group API: the medium in front of a surface need
            # no longer be the one behind its predecessor, and the reloaded
            # lens must still be the same lens
            enabled += ['remove', 'insert']
            weights['remove'] = sc.uniform(0.3, 1.0)
            weights['insert'] = sc.uniform(0.2, 0.6)
    else:
        feats = lensgen.pick_features(ch, C01_FEATS, 0.3)
        kinds = list(EDIT_KINDS)
        enabled = ch.subset(kinds, 0.6, at_least=2)
        weights = {k: ch.uniform(0.3, 2.0) for k in enabled}
        if ch.chance(0.15):
            enabled += ['insert', 'remove']
            weights['insert'] = 0.3
            weights['remove'] = 0.3
    sw['features'] = sorted(feats)
    sw['kinds'] = enabled
    sw['weights'] = weights
    sw['nasty'] = ch.pick([0.0, 0.05, 0.15, 0.4], tag='nasty')
    lo, hi = cfg.get('len_range', (8, 40))
    sw['length'] = ch.randint(lo, hi, tag='length')
    return sw


def run_one(prop, run_seed, run_index, cfg):
    ch = rng.Chooser(run_seed)
    sw = swarm(ch, prop, cfg)
    feats = set(sw['features'])
    build, meta = lensgen.gen_lens(ch, feats)
    w = World(prop, cfg)
    ops = []
    hist = {'ops': ops, 'swarm': {k: sw[k] for k in
                                  ('features', 'kinds', 'nasty', 'length')},
            'prop': prop}
    viol = None
    if prop in ('C01', 'C19') and ch.chance(0.25):
        # rejected calls injected between the build operations
        out = []
        for op in build:
            if op['op'] == 'add_surface' and op['index'] >= 1 and \
                    ch.chance(0.3):
                out.append({'op': 'bad_call', 'kind': ch.pick(
                    ['surface_type', 'glass_name', 'index_beyond_end'],
                    tag='badbuild'), 'surface': dict(
                        op, thickness=ch.rounded(ch.uniform(0.5, 60), 4))})
            if op['op'] == 'add_wavelength' and ch.chance(0.2):
                out.append({'op': 'bad_call', 'kind': 'wavelength_unit'})
            out.append(op)
        build = out
    try:
        for op in build:
            ops.append(op)
            w.step(op)
        nfail = 0
        while w.stats['steps'] < len(build) + sw['length'] and nfail < 50:
            op = gen_edit(ch, w, sw)
            if op is None:
                nfail += 1
                continue
            ops.append(op)
            if not w.step(op):
                ops.pop()
                nfail += 1
    except Abort:
        pass
    except Violation as v:
        if v.owner == prop:
            viol = {'class': v.cls, 'signature': v.signature,
                    'detail': v.detail, 'step': len(ops) - 1,
                    'property': prop}
        else:
            w.probe('foreign:' + v.signature)
    return finish(w, hist, viol, ch)


def finish(w, hist, viol, ch=None):
    st = w.stats
    nontrivial = st['state_changes'] >= 3 and st['oracle_checks'] >= 1
    return {'history': hist, 'violation': viol, 'stats': st,
            'digest': w.rd.hex(), 'step_digests': w.rd.steps[-5:],
            'shape': digest(w.shape, 12),
            'final': w.rd.steps[-1] if w.rd.steps else '',
            'nontrivial': nontrivial,
            'draws': ch.ndraws if ch else 0}


def replay(prop, hist):
    w = World(prop, {})
    viol = None
    i = -1
    try:
        for i, op in enumerate(hist['ops']):
            w.step(op)
    except Abort:
        pass
    except Violation as v:
        if v.owner == prop:
            viol = {'class': v.cls, 'signature': v.signature,
                    'detail': v.detail, 'step': i, 'property': prop}
    return finish(w, hist, viol)


def simplify(prop, hist):
    """Argument simplifications tried after ddmin: drop decorations from
    surfaces, replace glasses by ideal media."""
    edits = []
    for i, op in enumerate(hist['ops']):
        if op.get('op') != 'add_surface':
            continue
        for key in ('aperture', 'coating', 'bsdf', 'rx', 'ry', 'dx', 'dy',
                    'conic', 'tol', 'max_iter'):
            if key in op:
                def e(h, i=i, key=key):
                    h['ops'][i].pop(key, None)
                    return h
                edits.append(e)
        if op.get('material', ['air'])[0] in ('glass', 'abbe', 'glass_str',
                                              'glass_tuple'):
            def e2(h, i=i):
                h['ops'][i]['material'] = ['ideal', 1.5, 0]
                return h
            edits.append(e2)
    return edits
