"""Engine `interleave` (C13) — several scripted clients share one or two real
lenses; a seeded scheduler decides which client performs its next API call.
Every observation a client makes in the interleaved run must be bit-identical
to the observation the same script makes alone, uninterrupted, on a private
lens rebuilt from the recorded build operations (single-copy reference).

Direct oracles in addition: caller-owned argument arrays are byte-identical
after every call; an identical call repeated later returns identical results;
the lens' dictionary form never changes; one ray's result does not depend on
which other rays share the call (beyond the iterative-surface tolerance).

Faults injected: client calls that raise part-way (bad arguments, grids too
small, unknown names) and real ray failures (harsh lens family).
"""
import math
import warnings

import numpy as np

from sim import rng, lensgen, sut
from sim.canon import RunningDigest, canon, digest, same
from sim.sut import quiet

ENGINE = 'interleave'

C13_FEATS = ['conic', 'asphere', 'poly', 'cheby', 'tilt', 'decenter',
             'mirror', 'glass', 'abbe', 'absorb', 'finite_obj', 'vignette',
             'coat_simple', 'coat_fresnel', 'polarized', 'aperture',
             'multi_wl', 'fno', 'na', 'obj_height', 'planes', 'stop_any',
             'glass_str', 'units', 'telecentric']

PARAXIAL = ['f1', 'f2', 'F1', 'F2', 'P1', 'P2', 'N1', 'N2', 'EPL', 'EPD',
            'XPL', 'XPD', 'FNO', 'magnification', 'invariant',
            'marginal_ray', 'chief_ray']
ABERR = ['seidels', 'third_order', 'TSC', 'SC', 'CC', 'TCC', 'TAC', 'AC',
         'TPC', 'PC', 'DC', 'TAchC', 'LchC', 'TchC']
DISTS = ['hexapolar', 'line_x', 'line_y', 'positive_line_x',
         'positive_line_y', 'uniform', 'cross', 'ring']
REC = ('x', 'y', 'z', 'L', 'M', 'N', 'opd', 'intensity')


class Violation(Exception):
    def __init__(self, cls, signature, detail):
        super().__init__(signature)
        self.cls, self.signature, self.detail = cls, signature, detail


# --------------------------------------------------------------------------
# the client interpreter: one step = one public API call + the reads a caller
# would do right after it
# --------------------------------------------------------------------------
def _arr(spec):
    """Build a caller-owned argument from its recorded form."""
    form, val = spec
    if form == 'scalar':
        return float(val)
    if form == 'int':
        return int(val)
    if form == 'list':
        return [float(v) for v in val]
    if form == 'array':
        return np.array(val, dtype=float)
    if form == 'array2d':
        return np.array(val, dtype=float).reshape(1, -1)
    raise ValueError(form)


def _snap_arg(a):
    if isinstance(a, np.ndarray):
        return ('nd', a.dtype.str, a.shape, a.tobytes())
    if isinstance(a, list):
        return ('list', tuple(a))
    return ('py', a)


def records(lens, paraxial=False):
    sg = lens.surface_group
    out = {}
    names = ('y', 'u') if paraxial else REC
    for q in names:
        try:
            out[q] = canon(np.array(getattr(sg, q)), squeeze1=False)
        except Exception as e:       # ragged records etc.
            out[q] = ['unreadable', type(e).__name__]
    return out


def snap_obj(o):
    """Everything an analysis object exposes as results (its attributes,
    except the back-reference to the lens)."""
    out = {}
    for k, v in sorted(vars(o).items()):
        if hasattr(v, 'surface_group'):
            continue
        if hasattr(v, 'generate_points'):
            out[k] = {'dist': type(v).__name__,
                      'x': canon(getattr(v, 'x', None), squeeze1=False),
                      'y': canon(getattr(v, 'y', None), squeeze1=False)}
            continue
        out[k] = canon(v, squeeze1=False)
    return out


def wl_of(lens, i):
    ws = lens.wavelengths.wavelengths
    return ws[i % len(ws)].value


def mk_dist(spec):
    """spec: name | ['obj', name, n] | ['random', seed, n] | ['gq', sym, n]"""
    from optiland import distribution as D
    if isinstance(spec, str):
        return spec
    if spec[0] == 'obj':
        d = D.create_distribution(spec[1])
        d.generate_points(spec[2])
        return d
    if spec[0] == 'random':
        d = D.RandomDistribution(seed=spec[1])
        d.generate_points(spec[2])
        return d
    if spec[0] == 'points':
        # a Distribution object whose points the caller set himself
        d = D.UniformDistribution()
        d.x = np.array(spec[1], dtype=float)
        d.y = np.array(spec[2], dtype=float)
        return d
    if spec[0] == 'gq':
        d = D.GaussianQuadrature(is_symmetric=bool(spec[1]))
        d.generate_points(num_rings=spec[2])
        return d
    raise ValueError(spec)


ANALYSES = {}


def _reg(name):
    def deco(fn):
        ANALYSES[name] = fn
        return fn
    return deco


@_reg('SpotDiagram')
def _mk_spot(lens, kw):
    from optiland.analysis import SpotDiagram
    return SpotDiagram(lens, fields=kw.get('fields', 'all'),
                       wavelengths=kw.get('wavelengths', 'all'),
                       num_rings=kw.get('n', 3),
                       distribution=kw.get('dist', 'hexapolar'))


@_reg('EncircledEnergy')
def _mk_ee(lens, kw):
    from optiland.analysis import EncircledEnergy
    return EncircledEnergy(lens, fields=kw.get('fields', 'all'),
                           wavelength='primary', num_rays=kw.get('n', 30),
                           distribution=kw.get('dist', 'hexapolar'),
                           num_points=kw.get('np', 8))


@_reg('RayFan')
def _mk_rayfan(lens, kw):
    from optiland.analysis import RayFan
    return RayFan(lens, fields=kw.get('fields', 'all'),
                  wavelengths=kw.get('wavelengths', 'all'),
                  num_points=kw.get('n', 9))


@_reg('YYbar')
def _mk_yybar(lens, kw):
    from optiland.analysis import YYbar
    return YYbar(lens)


@_reg('Distortion')
def _mk_dist(lens, kw):
    from optiland.analysis import Distortion
    return Distortion(lens, num_points=kw.get('n', 6),
                      distortion_type=kw.get('type', 'f-tan'))


@_reg('GridDistortion')
def _mk_gdist(lens, kw):
    from optiland.analysis import GridDistortion
    return GridDistortion(lens, num_points=kw.get('n', 3),
                          distortion_type=kw.get('type', 'f-tan'))


@_reg('FieldCurvature')
def _mk_fc(lens, kw):
    from optiland.analysis import FieldCurvature
    return FieldCurvature(lens, num_points=kw.get('n', 6))


@_reg('PupilAberration')
def _mk_pa(lens, kw):
    from optiland.analysis import PupilAberration
    return PupilAberration(lens, fields=kw.get('fields', 'all'),
                           wavelengths=kw.get('wavelengths', 'all'),
                           num_points=kw.get('n', 9))


@_reg('RmsSpotSizeVsField')
def _mk_rsf(lens, kw):
    from optiland.analysis import RmsSpotSizeVsField
    return RmsSpotSizeVsField(lens, num_fields=kw.get('nf', 3),
                              num_rings=kw.get('n', 2))


@_reg('RmsWavefrontErrorVsField')
def _mk_rwf(lens, kw):
    from optiland.analysis import RmsWavefrontErrorVsField
    return RmsWavefrontErrorVsField(lens, num_fields=kw.get('nf', 3),
                                    num_rays=kw.get('n', 3))


@_reg('Wavefront')
def _mk_wf(lens, kw):
    from optiland.wavefront import Wavefront
    return Wavefront(lens, fields=kw.get('fields', 'all'),
                     wavelengths=kw.get('wavelengths', 'all'),
                     num_rays=kw.get('n', 3),
                     distribution=kw.get('dist_obj') or
                     mk_dist(kw.get('dist', 'hexapolar')))


@_reg('OPDFan')
def _mk_opdfan(lens, kw):
    from optiland.wavefront import OPDFan
    return OPDFan(lens, fields=kw.get('fields', 'all'),
                  wavelengths=kw.get('wavelengths', 'all'),
                  num_rays=kw.get('n', 9))


@_reg('OPD')
def _mk_opd(lens, kw):
    from optiland.wavefront import OPD
    return OPD(lens, tuple(kw.get('field', (0, 0))),
               wl_of(lens, kw.get('wi', 0)), num_rings=kw.get('n', 3))


@_reg('ZernikeOPD')
def _mk_zopd(lens, kw):
    from optiland.wavefront import ZernikeOPD
    return ZernikeOPD(lens, tuple(kw.get('field', (0, 0))),
                      wl_of(lens, kw.get('wi', 0)), num_rings=kw.get('n', 4),
                      zernike_type=kw.get('ztype', 'fringe'),
                      num_terms=kw.get('terms', 10))


@_reg('FFTPSF')
def _mk_psf(lens, kw):
    from optiland.psf import FFTPSF
    return FFTPSF(lens, tuple(kw.get('field', (0, 0))),
                  wl_of(lens, kw.get('wi', 0)), num_rays=kw.get('n', 16),
                  grid_size=kw.get('grid', 32))


@_reg('FFTMTF')
def _mk_fftmtf(lens, kw):
    from optiland.mtf import FFTMTF
    return FFTMTF(lens, fields=kw.get('fields', 'all'),
                  num_rays=kw.get('n', 16), grid_size=kw.get('grid', 32))


@_reg('GeometricMTF')
def _mk_gmtf(lens, kw):
    from optiland.mtf import GeometricMTF
    return GeometricMTF(lens, fields=kw.get('fields', 'all'),
                        num_rays=kw.get('n', 8),
                        distribution=kw.get('dist', 'uniform'),
                        num_points=kw.get('np', 8))


METHODS = {'SpotDiagram': ['centroid', 'geometric_spot_radius',
                           'rms_spot_radius'],
           'EncircledEnergy': ['centroid'],
           'RmsSpotSizeVsField': ['rms_spot_radius', 'centroid'],
           'GeometricMTF': ['centroid', 'rms_spot_radius'],
           'OPD': ['rms'], 'ZernikeOPD': ['rms', 'coeffs'],
           'FFTPSF': ['strehl_ratio']}


def do_step(lens, slots, st):
    """Execute one client step; returns the observation (plain data)."""
    c = st['c']
    obs = {}
    mutated = []
    try:
        with quiet(), warnings.catch_warnings():
            warnings.simplefilter('ignore')
            if c == 'mk':                     # caller-owned argument arrays
                slots[st['slot']] = {k: _arr(v) for k, v in st['args'].items()}
                return {'made': sorted(st['args'])}
            if c == 'trace':
                dist = mk_dist(st['dist'])
                keep = (dist.x.copy(), dist.y.copy()) \
                    if not isinstance(dist, str) else None
                r = lens.trace(st['Hx'], st['Hy'], wl_of(lens, st['wi']),
                               st['n'], dist)
                obs['rays'] = {q: canon(getattr(r, q), squeeze1=False)
                               for q in ('x', 'y', 'z', 'L', 'M', 'N', 'i',
                                         'opd')}
                obs['rec'] = records(lens)
                if keep is not None and not (
                        np.array_equal(keep[0], dist.x) and
                        np.array_equal(keep[1], dist.y)):
                    mutated.append('distribution')
            elif c == 'tg':                   # trace_generic
                args = slots.get(st['slot'])
                if args is None:
                    return {'skipped': 'no arguments'}
                before = {k: _snap_arg(v) for k, v in args.items()}
                if st.get('wis'):
                    # one wavelength per ray, in the caller's own array
                    wl = np.array([wl_of(lens, i) for i in st['wis']],
                                  dtype=float)
                    n = max(np.size(v) for v in args.values())
                    wl = np.resize(wl, n)
                    args = dict(args, W=wl)
                    before['W'] = _snap_arg(wl)
                else:
                    wl = wl_of(lens, st['wi'])
                try:
                    r = lens.trace_generic(args['Hx'], args['Hy'], args['Px'],
                                           args['Py'], wl)
                finally:
                    for k, v in args.items():
                        if _snap_arg(v) != before[k]:
                            mutated.append(k)
                obs['rays'] = {q: canon(getattr(r, q), squeeze1=False)
                               for q in ('x', 'y', 'z', 'L', 'M', 'N', 'i',
                                         'opd')}
                obs['rec'] = records(lens)
            elif c == 'zfit':
                # a Zernike fit of caller-owned sample arrays (pupil
                # coordinates need not be normalised)
                from optiland.zernike import ZernikeFit
                args = slots.get(st['slot'])
                if args is None:
                    return {'skipped': 'no arguments'}
                before = {k: _snap_arg(v) for k, v in args.items()}
                try:
                    z_ = args['z']
                    if st.get('flip'):
                        z_ = z_[::-1].copy()      # other data, same pupil
                    zf = ZernikeFit(args['x'], args['y'], z_,
                                    st.get('ztype', 'fringe'),
                                    st.get('terms', 6))
                    obs['ret'] = canon(list(zf.coeffs), squeeze1=False)
                    if st.get('keep'):
                        slots[st['keep']] = zf
                finally:
                    for k, v in args.items():
                        if _snap_arg(v) != before[k]:
                            mutated.append(k)
            elif c == 'px':
                obs['ret'] = canon(getattr(lens.paraxial, st['name'])(),
                                   squeeze1=False)
            elif c == 'pxtrace':
                lens.paraxial.trace(st['Hy'], st['Py'], wl_of(lens, st['wi']))
                obs['rec'] = records(lens, paraxial=True)
            elif c == 'ab':
                obs['ret'] = canon(getattr(lens.aberrations, st['name'])(),
                                   squeeze1=False)
            elif c == 'n':
                obs['ret'] = canon(lens.n(wl_of(lens, st['wi'])),
                                   squeeze1=False)
            elif c == 'new':
                kw = dict(st.get('kw', {}))
                dobj = None
                # caller-owned lists (fields as (Hx, Hy) tuples, wavelengths
                # in microns) handed to the constructor and kept
                owned = {}
                if 'fields_list' in kw:
                    owned['fields'] = [tuple(f_) for f_ in kw.pop('fields_list')]
                    kw['fields'] = owned['fields']
                if 'wl_list' in kw:
                    owned['wavelengths'] = [wl_of(lens, i)
                                            for i in kw.pop('wl_list')]
                    kw['wavelengths'] = owned['wavelengths']
                before_owned = {k_: list(v_) for k_, v_ in owned.items()}
                if not isinstance(kw.get('dist', 'x'), str):
                    dobj = mk_dist(kw['dist'])     # the caller's own object
                    keep = (dobj.x.copy(), dobj.y.copy())
                    kw['dist_obj'] = dobj
                try:
                    o = ANALYSES[st['cls']](lens, kw)
                finally:
                    if dobj is not None and not (
                            np.array_equal(keep[0], dobj.x) and
                            np.array_equal(keep[1], dobj.y)):
                        mutated.append('distribution')
                    for k_, v_ in owned.items():
                        if list(v_) != before_owned[k_]:
                            mutated.append(k_)
                slots[st['slot']] = o
                obs['obj'] = snap_obj(o)
            elif c == 'method':
                o = slots.get(st['slot'])
                if o is None or isinstance(o, dict):
                    return {'skipped': 'no object'}
                r_ = getattr(o, st['name'])
                if callable(r_):
                    r_ = r_()
                elif isinstance(r_, list):
                    r_ = list(r_)        # a property read (e.g. coeffs)
                obs['ret'] = canon(r_, squeeze1=False)
                obs['obj'] = snap_obj(o)
            elif c == 'view':
                import matplotlib.pyplot as plt
                o = slots.get(st['slot'])
                if o is None or isinstance(o, dict):
                    return {'skipped': 'no object'}
                before = snap_obj(o)
                vkw_ = dict(st.get('kw', {}))
                if vkw_.get('num_points') == 'native':
                    # "show without resampling": as many points as the
                    # displayed window has PSF pixels (the window is the
                    # bounding box of psf > threshold)
                    try:
                        b_ = o._find_bounds(vkw_.get('threshold', 0.05))
                        vkw_['num_points'] = int(b_[2] - b_[0]) or 128
                    except Exception:    # noqa: input generation only
                        vkw_['num_points'] = 128
                try:
                    o.view(**vkw_)
                finally:
                    plt.close('all')
                after = snap_obj(o)
                ok_, where_ = same(after, before)
                if not ok_:
                    obs['view_changed'] = where_
            elif c == 'operand':
                from optiland.optimization.operand import operand_registry
                fn = operand_registry.get(st['type'])
                data = dict(st.get('input', {}))
                data['optic'] = lens
                if 'wi' in data:
                    data['wavelength'] = wl_of(lens, data.pop('wi'))
                obs['ret'] = canon(fn(**data), squeeze1=False)
            else:
                raise ValueError(f'unknown step {c}')
    except Exception as e:   # noqa: the oracle is differential for these
        obs['raised'] = type(e).__name__
    if mutated:
        obs['mutated'] = mutated
    return obs


# --------------------------------------------------------------------------
# script generators (one per client kind)
# --------------------------------------------------------------------------
def _fields(ch):
    return ch.pick([(0.0, 0.0), (0.0, 1.0), (0.0, 0.7), (0.0, -1.0)],
                   tag='field')


def _pupil_arrays(ch, n, form=None):
    Hy = ch.pick([0.0, 1.0, 0.7, -0.5], tag='Hy')
    form = form or ch.weighted([('array', 6), ('scalar', 2), ('mixed', 2),
                                ('array2d', 0.5)], tag='form')
    px = [ch.rounded(ch.uniform(-1, 1), 3) for _ in range(n)]
    py = [ch.rounded(ch.uniform(-1, 1), 3) for _ in range(n)]
    if form == 'scalar':
        return {'Hx': ['scalar', 0.0], 'Hy': ['scalar', Hy],
                'Px': ['scalar', px[0]], 'Py': ['scalar', py[0]]}
    if form == 'mixed':
        return {'Hx': ['scalar', 0.0], 'Hy': ['scalar', Hy],
                'Px': ['array', px], 'Py': ['array', py]}
    if form == 'array2d':
        return {'Hx': ['array', [0.0] * n], 'Hy': ['array', [Hy] * n],
                'Px': ['array2d', px], 'Py': ['array2d', py]}
    hy = [ch.pick([0.0, 1.0, 0.7, -0.5]) for _ in range(n)] \
        if ch.chance(0.4) else [Hy] * n
    return {'Hx': ['array', [0.0] * n], 'Hy': ['array', hy],
            'Px': ['array', px], 'Py': ['array', py]}


def gen_client(ch, kind, meta):
    ns = meta['n']          # number of surfaces
    steps = []
    if kind == 'trace':
        for _ in range(ch.randint(1, 4)):
            d = ch.pick(DISTS, tag='dist')
            n = ch.randint(2, 7) if d not in ('hexapolar',) else \
                ch.randint(1, 3)
            dist = d if ch.chance(0.6) else ch.pick(
                [['obj', d, n], ['random', ch.randint(0, 99), n + 3],
                 ['gq', ch.chance(0.5), ch.randint(1, 3)]], tag='dobj')
            steps.append({'c': 'trace', 'Hx': 0.0,
                          'Hy': ch.pick([0.0, 1.0, 0.7, -1.0]),
                          'wi': ch.randint(0, 2), 'n': n, 'dist': dist})
    elif kind == 'tg':
        steps.append({'c': 'mk', 'slot': 'a',
                      'args': _pupil_arrays(ch, ch.randint(1, 6))})
        for _ in range(ch.randint(1, 4)):
            st = {'c': 'tg', 'slot': 'a', 'wi': ch.randint(0, 2)}
            if ch.chance(0.25):
                st['wis'] = [ch.randint(0, 2) for _ in range(6)]
            steps.append(st)
    elif kind == 'zfit':
        n = ch.randint(8, 14)
        sc = ch.pick([1.0, 1.0, ch.rounded(ch.uniform(2.0, 12.5), 3)],
                     tag='pupil_units')
        xs = [ch.rounded(sc * ch.uniform(-0.7, 0.7), 4) for _ in range(n)]
        ys = [ch.rounded(sc * ch.uniform(-0.7, 0.7), 4) for _ in range(n)]
        zs = [ch.rounded(ch.uniform(-0.5, 0.5), 4) for _ in range(n)]
        steps.append({'c': 'mk', 'slot': 'z',
                      'args': {'x': ['array', xs], 'y': ['array', ys],
                               'z': ['array', zs]}})
        zt = ch.pick(['fringe', 'standard', 'noll'])
        steps.append({'c': 'zfit', 'slot': 'z', 'ztype': zt,
                      'terms': ch.pick([3, 4, 6]), 'keep': 'f1'})
        steps.append({'c': 'method', 'slot': 'f1', 'name': 'coeffs',
                      'rep': 'z0', 'ret_only': True})
        if ch.chance(0.7):
            # a second fit alive at the same time (other data), then the
            # first one's result is read again
            steps.append({'c': 'zfit', 'slot': 'z', 'flip': True,
                          'ztype': zt if ch.chance(0.7) else
                          ch.pick(['fringe', 'standard', 'noll']),
                          'terms': ch.pick([3, 4, 6])})
            steps.append({'c': 'method', 'slot': 'f1', 'name': 'coeffs',
                          'rep': 'z0', 'ret_only': True})
    elif kind == 'paraxial':
        for _ in range(ch.randint(2, 6)):
            if ch.chance(0.2):
                steps.append({'c': 'pxtrace', 'Hy': ch.pick([0.0, 1.0]),
                              'Py': ch.pick([0.0, 1.0, -1.0, 0.5]),
                              'wi': ch.randint(0, 2)})
            elif ch.chance(0.1):
                steps.append({'c': 'n', 'wi': ch.randint(0, 2)})
            else:
                steps.append({'c': 'px', 'name': ch.pick(PARAXIAL)})
    elif kind == 'aberr':
        for _ in range(ch.randint(1, 4)):
            steps.append({'c': 'ab', 'name': ch.pick(ABERR)})
    elif kind == 'analysis':
        cls = ch.pick(sorted(ANALYSES), tag='cls')
        kw = {}
        if cls in ('OPD', 'ZernikeOPD', 'FFTPSF'):
            kw = {'field': list(_fields(ch)), 'wi': ch.randint(0, 2)}
            if cls == 'ZernikeOPD':
                kw.update(ztype=ch.pick(['fringe', 'standard', 'noll']),
                          terms=ch.pick([6, 10, 15]), n=ch.randint(3, 5))
            if cls == 'FFTPSF':
                kw.update(n=ch.pick([8, 16, 24]), grid=ch.pick([32, 48, 64]))
        elif cls in ('SpotDiagram', 'GeometricMTF', 'EncircledEnergy'):
            kw = {'dist': ch.pick(['hexapolar', 'uniform', 'ring', 'cross'])}
            kw['n'] = ch.randint(1, 3) if kw['dist'] == 'hexapolar' else \
                ch.randint(4, 9)
        elif cls == 'Wavefront':
            kw = {'n': ch.randint(1, 3), 'dist': ch.pick(
                ['hexapolar', ['obj', 'uniform', 5], ['gq', False, 2],
                 ['random', 7, 9]], tag='wfdist')}
        elif cls in ('Distortion', 'GridDistortion'):
            kw = {'type': ch.pick(['f-tan', 'f-theta']),
                  'n': ch.randint(2, 5)}
        if cls in ('SpotDiagram', 'RayFan', 'PupilAberration', 'OPDFan',
                   'Wavefront') and ch.chance(0.35):
            # explicit, caller-owned field / wavelength lists (possibly
            # without the primary wavelength)
            kw['fields_list'] = [[0.0, h_] for h_ in ch.subset(
                [0.0, 0.7, 1.0], 0.6, at_least=1)]
            kw['wl_list'] = ch.subset([0, 1, 2], 0.6, at_least=1)
        steps.append({'c': 'new', 'cls': cls, 'slot': 'o', 'kw': kw})
        meths = ch.shuffle(METHODS.get(cls, []))[:ch.randint(0, 3)]
        if ch.chance(0.3):
            # look at the result between the queries (Agg backend)
            vkw = {}
            if cls in ('OPD', 'ZernikeOPD'):
                vkw = {'projection': ch.pick(['2d', '3d']),
                       'num_points': ch.pick([16, 32])}
            elif cls == 'FFTPSF':
                vkw = {'projection': ch.pick(['2d', '3d']),
                       'log': ch.chance(0.5)}
            meths = meths[:1] + [('view', vkw)] + meths[1:]
        for name in meths:
            if isinstance(name, tuple):
                steps.append({'c': 'view', 'slot': 'o', 'kw': name[1]})
            else:
                steps.append({'c': 'method', 'slot': 'o', 'name': name})
        if cls == 'ZernikeOPD' and ch.chance(0.5):
            # a second fit of the same kind (another field) made while the
            # first one is still in use
            kw2 = dict(kw, field=list(_fields(ch)))
            steps.append({'c': 'method', 'slot': 'o', 'name': 'coeffs'})
            steps.append({'c': 'new', 'cls': cls, 'slot': 'o2', 'kw': kw2})
        if cls == 'FFTPSF' and ch.side('psf-attr').chance(0.6):
            # the PSF itself is only available as the documented result
            # attribute `psf`: read it, look at it without resampling (lin or
            # log, 2d or 3d), read it again
            sc = ch.side('psf-attr-kw')
            steps.append({'c': 'method', 'slot': 'o', 'name': 'psf',
                          'rep': 'pa', 'ret_only': True})
            for _ in range(sc.randint(1, 2)):
                steps.append({'c': 'view', 'slot': 'o', 'kw': {
                    'projection': sc.pick(['2d', '3d']),
                    'log': sc.chance(0.6),
                    'threshold': sc.pick([0.05, 0.25, 0.01]),
                    'num_points': sc.pick(['native', 'native', 128])}})
            steps.append({'c': 'method', 'slot': 'o', 'name': 'psf',
                          'rep': 'pa', 'ret_only': True})
        if any(s_['c'] == 'method' and 'rep' not in s_
               for s_ in steps) and ch.chance(0.6):
            # the same query again on the same object, after the others:
            # "the same analysis call repeated returns identical results"
            first = next(s_ for s_ in steps
                         if s_['c'] == 'method' and 'rep' not in s_)
            first['rep'] = 'm0'
            first['ret_only'] = True
            steps.append({'c': 'method', 'slot': 'o', 'name': first['name'],
                          'rep': 'm0', 'ret_only': True})
    elif kind == 'operand':
        for _ in range(ch.randint(1, 4)):
            t = ch.pick(['f2', 'EPL', 'XPL', 'magnification', 'seidel',
                         'TSC_sum', 'LchC_sum', 'DC', 'real_y_intercept',
                         'real_x_intercept', 'real_N', 'real_M',
                         'rms_spot_size', 'OPD_difference'], tag='optype')
            inp = {}
            if t == 'seidel':
                inp = {'seidel_number': ch.randint(1, 5)}
            elif t == 'DC':
                inp = {'surface_number': ch.randint(1, max(1, ns - 2))}
            elif t.startswith('real_'):
                inp = {'surface_number': ch.randint(1, ns - 1), 'Hx': 0.0,
                       'Hy': ch.pick([0.0, 1.0]), 'Px': ch.pick([0.0, 0.5]),
                       'Py': ch.pick([0.0, 1.0, -0.7]),
                       'wi': ch.randint(0, 2)}
            elif t == 'rms_spot_size':
                inp = {'surface_number': ns - 1, 'Hx': 0.0,
                       'Hy': ch.pick([0.0, 1.0]), 'num_rays': ch.randint(1, 3),
                       'wi': ch.randint(0, 2), 'distribution': 'hexapolar'}
                if ch.chance(0.3):
                    inp.pop('wi')
                    inp['wavelength'] = 'all'
            elif t == 'OPD_difference':
                inp = {'Hx': 0.0, 'Hy': ch.pick([0.0, 1.0]),
                       'num_rays': ch.randint(1, 3), 'wi': ch.randint(0, 2)}
            steps.append({'c': 'operand', 'type': t, 'input': inp})
    elif kind == 'repeat':
        base = gen_client(ch, ch.pick(['trace', 'tg', 'paraxial', 'aberr',
                                       'analysis', 'operand']), meta)
        tagged = []
        reps = ch.randint(2, 3)
        for r in range(reps):
            for j, s in enumerate(base):
                s2 = dict(s)
                if s['c'] != 'mk':
                    s2['rep'] = j
                elif r > 0:
                    continue
                tagged.append(s2)
        steps = tagged
    elif kind == 'batch':
        n1 = ch.randint(1, 4)
        n2 = ch.randint(1, 5)
        a = _pupil_arrays(ch, n1, 'array')
        b = _pupil_arrays(ch, n2, 'array')
        if ch.chance(0.3):
            # off-axis rays compared, an on-axis ray among the others
            a['Hy'] = ['array', [ch.pick([1.0, 0.7, -0.5])] * n1]
            b['Hy'][1][ch.randint(0, n2 - 1)] = 0.0
        # S's rays placed at drawn positions inside the larger batch
        order = ch.shuffle([('S', i) for i in range(n1)] +
                           [('T', i) for i in range(n2)]) \
            if ch.chance(0.6) else ([('S', i) for i in range(n1)] +
                                    [('T', i) for i in range(n2)])
        both = {k: ['array', [(a if w == 'S' else b)[k][1][i]
                              for w, i in order]] for k in a}
        idx = [order.index(('S', i)) for i in range(n1)]
        wi = ch.randint(0, 2)
        steps = [{'c': 'mk', 'slot': 'S', 'args': a},
                 {'c': 'mk', 'slot': 'ST', 'args': both},
                 {'c': 'tg', 'slot': 'S', 'wi': wi, 'batch': 'S'},
                 {'c': 'tg', 'slot': 'ST', 'wi': wi, 'batch': 'ST',
                  'idx': idx}]
        if ch.chance(0.35):
            # rays of different wavelengths in one call
            wS = [ch.randint(0, 2) for _ in range(n1)]
            wT = [ch.randint(0, 2) for _ in range(n2)]
            steps[2]['wis'] = wS
            steps[3]['wis'] = [(wS if w == 'S' else wT)[i] for w, i in order]
        if ch.chance(0.5):
            steps[2], steps[3] = steps[3], steps[2]
    elif kind == 'batch_trace':
        # the same pupil points traced through Optic.trace (which, unlike
        # trace_generic, finishes polarized intensities) alone and inside a
        # larger caller-built distribution
        n1 = ch.randint(1, 4)
        n2 = ch.randint(1, 5)
        pS = [[ch.rounded(ch.uniform(-0.9, 0.9), 3) for _ in range(n1)]
              for _ in range(2)]
        pT = [[ch.rounded(ch.uniform(-0.9, 0.9), 3) for _ in range(n2)]
              for _ in range(2)]
        order = ch.shuffle([('S', i) for i in range(n1)] +
                           [('T', i) for i in range(n2)])
        bx = [(pS if w == 'S' else pT)[0][i] for w, i in order]
        by = [(pS if w == 'S' else pT)[1][i] for w, i in order]
        idx = [order.index(('S', i)) for i in range(n1)]
        Hy = ch.pick([0.0, 1.0, 0.7])
        wi = ch.randint(0, 2)
        steps = [{'c': 'trace', 'Hx': 0.0, 'Hy': Hy, 'wi': wi, 'n': None,
                  'dist': ['points', pS[0], pS[1]], 'batch': 'S'},
                 {'c': 'trace', 'Hx': 0.0, 'Hy': Hy, 'wi': wi, 'n': None,
                  'dist': ['points', bx, by], 'batch': 'ST', 'idx': idx}]
        if ch.chance(0.5):
            steps.reverse()
    elif kind == 'fft':
        # PSF / MTF computations on the same grid with changing pupil
        # sampling (a sampling check), on the same field and wavelength
        grid = ch.pick([32, 48, 64], tag='grid')
        ns = ch.shuffle([8, 16, 24])[:ch.randint(2, 3)]
        fld = list(_fields(ch))
        wi = ch.randint(0, 2)
        for j, n in enumerate(ns):
            if ch.chance(0.7):
                steps.append({'c': 'new', 'cls': 'FFTPSF', 'slot': f'p{j}',
                              'kw': {'field': fld, 'wi': wi, 'n': n,
                                     'grid': grid}})
                if ch.chance(0.5):
                    steps.append({'c': 'method', 'slot': f'p{j}',
                                  'name': 'strehl_ratio'})
            else:
                steps.append({'c': 'new', 'cls': 'FFTMTF', 'slot': f'p{j}',
                              'kw': {'n': n, 'grid': grid}})
    elif kind == 'faulty':
        for _ in range(ch.randint(1, 3)):
            f = ch.pick(['len', 'dist', 'list', 'grid', 'name', 'surf',
                         'field', 'dtype', 'dtype'], tag='fault')
            if f == 'len':
                steps.append({'c': 'mk', 'slot': 'bad', 'args': {
                    'Hx': ['array', [0.0, 0.0, 0.0]],
                    'Hy': ['array', [0.0, 1.0, 0.5]],
                    'Px': ['array', [0.1, 0.2]], 'Py': ['array', [0.3, 0.1]]}})
                steps.append({'c': 'tg', 'slot': 'bad', 'wi': 0, 'fault': f})
            elif f == 'list':
                steps.append({'c': 'mk', 'slot': 'bad', 'args': {
                    'Hx': ['list', [0.0, 0.0]], 'Hy': ['list', [0.0, 1.0]],
                    'Px': ['list', [0.1, 0.2]], 'Py': ['list', [0.3, 0.1]]}})
                steps.append({'c': 'tg', 'slot': 'bad', 'wi': 0, 'fault': f})
            elif f == 'dist':
                steps.append({'c': 'trace', 'Hx': 0.0, 'Hy': 1.0, 'wi': 0,
                              'n': 3, 'dist': 'no_such_distribution',
                              'fault': f})
            elif f == 'grid':
                steps.append({'c': 'new', 'cls': 'FFTPSF', 'slot': 'f',
                              'kw': {'field': [0, 1.0], 'wi': 0, 'n': 24,
                                     'grid': 8}, 'fault': f})
            elif f == 'dtype':
                steps.append({'c': 'new', 'slot': 'f', 'fault': f,
                              'cls': ch.pick(['Distortion',
                                              'GridDistortion']),
                              'kw': {'type': 'no-such-distortion-type',
                                     'n': 3}})
            elif f == 'name':
                steps.append({'c': 'operand', 'type': 'real_y_intercept',
                              'input': {'surface_number': 1, 'Hx': 0.0,
                                        'Hy': 0.0, 'Px': 0.0}, 'fault': f})
            elif f == 'surf':
                steps.append({'c': 'operand', 'type': 'real_y_intercept',
                              'input': {'surface_number': ns + 7, 'Hx': 0.0,
                                        'Hy': 1.0, 'Px': 0.0, 'Py': 1.0,
                                        'wi': 0}, 'fault': f})
            else:
                steps.append({'c': 'new', 'cls': 'OPD', 'slot': 'f',
                              'kw': {'field': [0.0, 5.0], 'wi': 0, 'n': 2},
                              'fault': f})
    else:
        raise ValueError(kind)
    return steps


KINDS = [('trace', 3), ('tg', 3), ('paraxial', 3), ('aberr', 1.5),
         ('analysis', 4), ('operand', 2), ('repeat', 2), ('batch', 1.5),
         ('batch_trace', 1.2), ('fft', 1.2), ('faulty', 1.5),
         ('zfit', 0.6)]


def build_lens(ops):
    """Build operations, optionally followed by pickup / solve / update /
    set_* operations (a lens that carries pickups and solves, up to date or
    deliberately stale), applied through the history engine's World."""
    if not any(o.get('op') in ('pickup', 'solve', 'update', 'set_radius',
                               'set_conic', 'set_thickness') for o in ops):
        return sut.new_lens(ops)
    from engines import history
    w = history.World('C13', {})
    try:
        for op in ops:
            w.step(op)
    except (history.Violation, history.Abort):
        pass
    return w.lens


def lens_digest(lens):
    with quiet(), warnings.catch_warnings():
        warnings.simplefilter('ignore')
        return canon(lens.to_dict())


def lens_size(lens_ops):
    return 1.0 + sum(abs(o.get('thickness', 0)) for o in lens_ops
                     if o.get('op') == 'add_surface' and
                     math.isfinite(o.get('thickness', 0)))


def batch_tol(lens_ops):
    """1e-13 relative for closed-form surfaces; 10 x the loosest
    intersection tolerance when an iterative surface is present (each
    converged ray is within tol of the surface along z; x, y and the optical
    path inherit that times a direction cosine / an index)."""
    tol = 0.0
    for op in lens_ops:
        if op.get('op') == 'add_surface' and op.get('stype', 'standard') in \
                ('even_asphere', 'polynomial', 'chebyshev'):
            # surface_factory's default tolerance is 1e-6 for all three
            tol = max(tol, 10 * op.get('tol', 1e-6))
    return tol


def execute(prop, hist):
    lenses_ops = hist['lenses']
    clients = hist['clients']
    schedule = hist['schedule']
    rd = RunningDigest()
    stats = {'ops': {}, 'probes': {}, 'faults': {}, 'steps': 0,
             'oracle_checks': 0, 'state_changes': 0}

    def probe(name, n=1):
        stats['probes'][name] = stats['probes'].get(name, 0) + n
    shared = [build_lens(ops) for ops in lenses_ops]
    dig0 = [lens_digest(L) for L in shared]
    pos = [0] * len(clients)
    slots = [{} for _ in clients]
    seen = [[] for _ in clients]        # interleaved observations
    shape = []
    viol = None
    try:
        for ci in schedule:
            if ci >= len(clients):
                continue
            cl = clients[ci]
            if pos[ci] >= len(cl['script']):
                continue
            st = cl['script'][pos[ci]]
            li = cl['lens'] % len(shared)
            obs = do_step(shared[li], slots[ci], st)
            seen[ci].append(obs)
            pos[ci] += 1
            stats['steps'] += 1
            stats['ops'][st['c']] = stats['ops'].get(st['c'], 0) + 1
            shape.append((cl['kind'], pos[ci]))
            rd.add([ci, st['c'], obs])
            call = st.get('cls') or st.get('name') or st.get('type') or \
                st['c']
            if 'raised' in obs and not st.get('fault'):
                probe(f'raised_in:{call}')
            elif not st.get('fault'):
                probe(f'ok:{call}')
            if 'raised' in obs:
                (stats['faults'] if st.get('fault') else stats['probes'])[
                    'raised:' + (st.get('fault') or obs['raised'])] = \
                    (stats['faults'] if st.get('fault') else
                     stats['probes']).get('raised:' + (st.get('fault') or
                                                       obs['raised']), 0) + 1
            if obs.get('rays') and not _all_finite(obs['rays']['y']):
                stats['faults']['ray_failure'] = \
                    stats['faults'].get('ray_failure', 0) + 1
            if obs.get('view_changed'):
                # (1c) looking at a result does not change it: the stored
                # results of an analysis object (its documented attributes
                # are the only way to read them) are what a repeated query
                # returns.  RayFan / OPDFan / FFTPSF.view of the pinned tree
                # wrote into them (fixed in /repo, known_findings.json).
                probe('view_changed_stored_attributes:' +
                      type(slots[ci].get(st['slot'])).__name__)
                stats['oracle_checks'] += 1
                raise Violation(
                    'not-repeatable',
                    f'C13/view/stored-result-changed/'
                    f'{type(slots[ci].get(st["slot"])).__name__}',
                    f'client {ci} ({cl["kind"]}) step {st}: view() changed '
                    f'the stored results of the analysis object: '
                    f'{obs["view_changed"]}')
            # (3) caller-owned arguments untouched
            stats['oracle_checks'] += 1
            if obs.get('mutated'):
                raise Violation('arg-mutated', f'C13/{st["c"]}/arg-mutated/'
                                f'{obs["mutated"][0]}',
                                f'client {ci} ({cl["kind"]}) step {st}: the '
                                f'caller\'s {obs["mutated"]} changed during '
                                f'the call')
            # (4) no call changes prescription / fields / wavelengths /
            #     aperture of any shared lens
            for j, L in enumerate(shared):
                stats['oracle_checks'] += 1
                ok, where = same(lens_digest(L), dig0[j])
                if not ok:
                    key = '/'.join(x for x in where.split(':')[0].split('/')
                                   if x and not x.isdigit())
                    raise Violation('lens-changed',
                                    f'C13/{call}/lens-changed/{key}',
                                    f'after client {ci} ({cl["kind"]}) step '
                                    f'{st} lens {j} differs from its state at '
                                    f'the start: {where}')
        # (1b) identical call repeated later: identical observation
        for ci, cl in enumerate(clients):
            first = {}
            for k, obs in enumerate(seen[ci]):
                st = cl['script'][k]
                if 'rep' not in st:
                    continue
                if st['rep'] in first:
                    stats['oracle_checks'] += 1
                    a_, b_ = obs, first[st['rep']]
                    if st.get('ret_only'):
                        a_ = {k_: v_ for k_, v_ in a_.items() if k_ != 'obj'}
                        b_ = {k_: v_ for k_, v_ in b_.items() if k_ != 'obj'}
                    ok, where = same(a_, b_)
                    if not ok:
                        raise Violation(
                            'not-repeatable',
                            f'C13/{_call(st)}/not-repeatable/'
                            f'{_key(where)}',
                            f'client {ci} repeated {st} and observed a '
                            f'different result: {where}')
                    probe('repeat_compared')
                else:
                    first[st['rep']] = obs
        # (2) batch independence
        for ci, cl in enumerate(clients):
            if cl['kind'] not in ('batch', 'batch_trace'):
                continue
            oS = oST = None
            n1 = None
            for k, obs in enumerate(seen[ci]):
                st = cl['script'][k]
                if st.get('batch') == 'S':
                    oS = obs
                elif st.get('batch') == 'ST':
                    oST = obs
                    n1 = st['idx']
            if oS and oST and 'rays' in oS and 'rays' in oST:
                tol = batch_tol(lenses_ops[cl['lens'] % len(shared)])
                stats['oracle_checks'] += 1
                # the returned rays (final state, including the intensity a
                # polarized trace assigns) as one more "surface"
                def with_final(o_, q):
                    qq = {'intensity': 'i'}.get(q, q)
                    return np.array(list(o_['rec'][q]) + [o_['rays'][qq]],
                                    dtype=float)
                for q in REC:
                    try:
                        a = with_final(oS, q)
                        b = with_final(oST, q)[:, n1]
                    except Exception:
                        continue
                    if a.shape != b.shape:
                        continue
                    fin = np.abs(a[np.isfinite(a)])
                    scale = 1 + (fin.max() if fin.size else 0.0)
                    # the intersection tolerance is an error *at the
                    # iterative surface*; what reaches a later surface is
                    # that error times the lever arm of the ray, estimated
                    # by how far the rays are from the scale of the lens
                    amp = max(1.0, scale / lens_size(
                        lenses_ops[cl['lens'] % len(shared)]))
                    bad = ~(np.isclose(a, b, rtol=1e-13, atol=1e-13 * scale +
                                       tol * amp, equal_nan=True))
                    if bad.any():
                        s, r = np.argwhere(bad)[0]
                        raise Violation(
                            'batch-dependence',
                            f'C13/{"trace" if cl["script"][-1]["c"] == "trace" else "tg"}'
                            f'/batch-dependence/{q}',
                            f'ray {r} traced alone gives {q}={a[s, r]!r} on '
                            f'surface {s}, inside a larger batch '
                            f'{b[s, r]!r} (tolerance {tol})')
                probe('batch_compared')
        # (1) single-copy reference: each client alone on a private lens
        for ci, cl in enumerate(clients):
            if pos[ci] == 0:
                continue
            priv = build_lens(lenses_ops[cl['lens'] % len(shared)])
            sl = {}
            for k in range(pos[ci]):
                st = cl['script'][k]
                ref = do_step(priv, sl, st)
                stats['oracle_checks'] += 1
                ok, where = same(seen[ci][k], ref)
                if not ok:
                    raise Violation(
                        'depends-on-history',
                        f'C13/{_call(st)}/depends-on-history/{_key(where)}',
                        f'client {ci} ({cl["kind"]}) step {k} {st}: observed '
                        f'{where} (interleaved vs alone on a private lens)')
            probe('client_compared')
    except Violation as v:
        viol = {'class': v.cls, 'signature': v.signature, 'detail': v.detail,
                'step': stats['steps'], 'property': prop}
    nclients = sum(1 for p in pos if p > 0)
    switches = sum(1 for a, b in zip(schedule, schedule[1:]) if a != b)
    stats['probes']['context_switches'] = switches
    return {'history': hist, 'violation': viol, 'stats': stats,
            'digest': rd.hex(), 'step_digests': rd.steps[-5:],
            'shape': digest(shape, 12),
            'final': rd.steps[-1] if rd.steps else '',
            'nontrivial': nclients >= 2 and switches >= 2 and
            stats['oracle_checks'] >= 3}


def _all_finite(x):
    try:
        return bool(np.isfinite(np.array(x, dtype=float)).all())
    except Exception:
        return True


def _call(st):
    return st.get('cls') or st.get('name') or st.get('type') or st['c']


def _key(where):
    return '/'.join(x for x in where.split(':')[0].split('/')
                    if x and not x.isdigit())


def gen_managers(ch, build):
    """pickup / solve operations for a lens, then either update() (a lens
    that is up to date) or a further edit of a pickup source with no update
    (a stale lens: still "unchanged" as far as the clients are concerned)."""
    from engines import history
    w = history.World('C13', {})
    try:
        for op in build:
            w.step(op)
    except (history.Violation, history.Abort):
        return []
    sw = {'kinds': ['pickup', 'solve'], 'weights': {'pickup': 1.5,
                                                     'solve': 1},
          'nasty': 0.0}
    extra = []
    for _ in range(ch.randint(1, 3)):
        op = history.gen_edit(ch, w, sw)
        if op is None:
            continue
        try:
            if w.step(op):
                extra.append(op)
        except (history.Violation, history.Abort):
            return []
    if not extra:
        return []
    extra.append({'op': 'update'})
    if ch.chance(0.5) and w.model.pickups:
        p = ch.pick(w.model.pickups, tag='stale')
        if p['attr'] == 'radius':
            extra.append({'op': 'set_radius', 'k': p['src'], 'v': ch.rounded(
                w.model.surfs[p['src']]['radius'] * ch.uniform(1.05, 1.3))})
        elif p['attr'] == 'conic':
            extra.append({'op': 'set_conic', 'k': p['src'],
                          'v': ch.rounded(ch.uniform(-1.5, 0.5), 4)})
        else:
            extra.append({'op': 'set_thickness', 'k': p['src'],
                          'v': ch.rounded(w.model.surfs[p['src']]['t'] *
                                          ch.uniform(1.05, 1.3))})
    return extra


def run_one(prop, run_seed, run_index, cfg):
    ch = rng.Chooser(run_seed)
    nl = ch.weighted([(1, 3), (2, 1)], tag='nlenses')
    lenses = []
    metas = []
    for _ in range(nl):
        if ch.chance(0.25):
            ops, meta = lensgen.gen_sample(ch)
            L = sut.new_lens(ops)
            meta = {'n': L.surface_group.num_surfaces}
        else:
            feats = lensgen.pick_features(ch, C13_FEATS, 0.25)
            if ch.chance(0.35):
                feats.add('vignette')
            ops, m = lensgen.gen_lens(ch, feats, harsh=ch.chance(0.2),
                                      max_surf=8)
            meta = {'n': m['nsurf'] + 2}
            if ch.side('np0d-radii').chance(0.15):
                # radii handed over as 0-d numpy arrays
                for o in ops:
                    if o.get('op') == 'add_surface' and \
                            o.get('stype', 'standard') == 'standard':
                        o['np0d'] = True
            if ch.chance(0.12):
                # a paraboloid up front (Newtonian style): the quadratic of
                # the intersection degenerates for axis-parallel rays
                for o in ops:
                    if o.get('op') == 'add_surface' and \
                            o.get('index', 0) >= 1 and \
                            o.get('stype') == 'standard' and \
                            math.isfinite(o.get('radius', math.inf)):
                        o['conic'] = ch.pick([-1, -1.0])
                        break
            if ch.chance(0.25):
                ops = ops + gen_managers(ch, ops)
        lenses.append(ops)
        metas.append(meta)
    nc = ch.randint(2, cfg.get('max_clients', 5), tag='nclients')
    clients = []
    for _ in range(nc):
        kind = ch.weighted(KINDS, tag='ckind')
        li = ch.randint(0, nl - 1)
        clients.append({'kind': kind, 'lens': li,
                        'script': gen_client(ch, kind, metas[li])})
    # the schedule: which client advances at each step (sometimes in bursts)
    left = [len(c['script']) for c in clients]
    schedule = []
    cap = cfg.get('max_steps', 40)
    while any(left) and len(schedule) < cap:
        ci = ch.weighted([(i, left[i]) for i in range(nc)], tag='sched')
        burst = ch.randint(1, 3) if ch.chance(0.25) else 1
        for _ in range(min(burst, left[ci])):
            schedule.append(ci)
            left[ci] -= 1
    hist = {'lenses': lenses, 'clients': clients, 'schedule': schedule,
            'shrinkable': ['schedule']}
    res = execute(prop, hist)
    res['draws'] = ch.ndraws
    return res


def replay(prop, hist):
    return execute(prop, hist)


def simplify(prop, hist):
    """Drop whole clients, drop a second lens, simplify lens decorations."""
    edits = []
    for ci in range(len(hist['clients'])):
        def drop(h, ci=ci):
            if not any(s == ci for s in h['schedule']):
                return None
            h['schedule'] = [s for s in h['schedule'] if s != ci]
            return h
        edits.append(drop)
    def prune(h):
        used = sorted(set(s for s in h['schedule']
                          if s < len(h['clients'])))
        if len(used) == len(h['clients']):
            lens_used = sorted({h['clients'][c]['lens'] % len(h['lenses'])
                                for c in used})
            if len(lens_used) == len(h['lenses']):
                return None
        else:
            lens_used = sorted({h['clients'][c]['lens'] % len(h['lenses'])
                                for c in used})
        remap = {c: i for i, c in enumerate(used)}
        h['schedule'] = [remap[s] for s in h['schedule'] if s in remap]
        h['clients'] = [h['clients'][c] for c in used]
        lmap = {l: i for i, l in enumerate(lens_used)}
        for c in h['clients']:
            c['lens'] = lmap[c['lens'] % len(h['lenses'])]
        h['lenses'] = [h['lenses'][l] for l in lens_used]
        for c in h['clients']:
            n = sum(1 for s in h['schedule'] if s == h['clients'].index(c))
        return h
    edits.append(prune)
    for li, ops in enumerate(hist['lenses']):
        for i, op in enumerate(ops):
            if op.get('op') != 'add_surface':
                continue
            for key in ('aperture', 'coating', 'rx', 'ry', 'dx', 'dy',
                        'conic'):
                if key in op:
                    def e(h, li=li, i=i, key=key):
                        h['lenses'][li][i].pop(key, None)
                        return h
                    edits.append(e)
    return edits
