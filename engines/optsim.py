"""Engine `optsim` (C14) — the optimiser drivers and the worker pool are the
simulated environment; the lens, variables, operands, merit function, the
five front ends and undo() are real.

One run = one generated lens (optionally with pickups and a solve), one
OptimizationProblem, and a history over
  optimize(front end, driver config) / undo / poke(variable) / new optimiser.
Two driver configurations, reported separately:
  S  stub driver: a recorded, arbitrary evaluation order within the scipy
     contract (x0 first, inside bounds, best point returned, never ends on
     the best point);
  R  real scipy, seeded, with multi-process DE replaced by SimPool.
"""
import math
import warnings

import numpy as np

from sim import rng, lensgen, sut, simopt
from sim.canon import RunningDigest, canon, digest, same
from sim.model import NotApplicable
from sim.sut import quiet, f
from engines import history

ENGINE = 'optsim'
FEATS = ['conic', 'asphere', 'poly', 'cheby', 'tilt', 'decenter', 'glass',
         'abbe', 'finite_obj', 'multi_wl', 'planes', 'stop_any', 'aperture',
         'fno', 'mirror', 'shared_material']
FRONTS = ['generic', 'generic_m', 'lsq', 'da', 'de1', 'dew']


class Violation(Exception):
    def __init__(self, cls, signature, detail):
        super().__init__(signature)
        self.cls, self.signature, self.detail = cls, signature, detail


def sentinel(x):
    x = float(x)
    return 1e10 if math.isnan(x) else x


# --------------------------------------------------------------------------
def var_kwargs(spec, from_end=True):
    kw = {'surface_number': spec['k']}
    if from_end and spec.get('neg'):
        # the surface addressed from the end of the lens (-2 = last gap /
        # last surface before the image), as Python indexing allows
        kw['surface_number'] = spec['k'] - spec['nsurf']
    for key in ('coeff_number', 'axis', 'wavelength'):
        if key in spec:
            kw[key] = spec[key]
    if 'coeff_index' in spec:
        kw['coeff_index'] = tuple(spec['coeff_index'])
    return kw


def operand_input(lens, spec):
    data = dict(spec.get('input', {}))
    data['optic'] = lens
    if isinstance(data.get('distribution'), list):
        # a Distribution object created by the caller and kept in the
        # operand's input data for the whole life of the problem
        from engines.interleave import mk_dist
        data['distribution'] = mk_dist(data['distribution'])
    if 'wi' in data:
        ws = lens.wavelengths.wavelengths
        data['wavelength'] = ws[data.pop('wi') % len(ws)].value
    return data


class Sim:
    def __init__(self, prop, hist):
        self.prop = prop
        self.hist = hist
        self.stats = {'ops': {}, 'probes': {}, 'faults': {}, 'steps': 0,
                      'oracle_checks': 0, 'state_changes': 0}
        self.rd = RunningDigest()
        self.shape = []

    def probe(self, name, n=1):
        self.stats['probes'][name] = self.stats['probes'].get(name, 0) + n

    # ---- world construction: lens + pickups / solve through the history
    #      engine's World (same model, same C01 oracles)
    def build_world(self):
        w = history.World('C14', {})
        for op in self.hist['build']:
            w.step(op)
        for op in self.hist.get('pre', []):
            w.step(op)
        if w.model.pickups or w.model.solves:
            w.step({'op': 'update'})
        return w

    def setup(self):
        from optiland.optimization import OptimizationProblem
        try:
            self.w = self.build_world()
        except (history.Violation, history.Abort):
            raise NotApplicable('lens construction is C01\'s business')
        self.lens = self.w.lens
        # optional second lens: one problem may hold variables and operands
        # on several optics
        self.w2 = None
        if self.hist.get('build2'):
            w2 = history.World('C14', {})
            try:
                for op in self.hist['build2']:
                    w2.step(op)
            except (history.Violation, history.Abort):
                raise NotApplicable('lens construction is C01\'s business')
            if w2.model.n >= 3 and w2.model.wls and w2.model.aperture and \
                    w2.model.fields:
                self.w2 = w2
        m = self.w.model
        if m.n < 3 or not m.wls or m.aperture is None or not m.fields:
            raise NotApplicable('incomplete lens')
        self.problem = OptimizationProblem()
        self.ops_ok = []
        with quiet(), warnings.catch_warnings():
            warnings.simplefilter('ignore')
            for spec in self.hist['operands']:
                self.problem.add_operand(spec['type'], spec['target'],
                                         spec['weight'],
                                         operand_input(self.lens_of(spec),
                                                       spec))
            self.vspecs = []
            for spec in self.hist['variables']:
                if not self.var_applicable(spec):
                    continue
                kw = var_kwargs(spec)
                self.problem.add_variable(
                    self.lens_of(spec), spec['type'], min_val=spec.get('min'),
                    max_val=spec.get('max'),
                    apply_scaling=bool(spec.get('scaled', True)), **kw)
                self.vspecs.append(spec)
        if not self.problem.variables or not self.problem.operands:
            raise NotApplicable('empty problem')
        f0 = self.merit()
        if f0 is None or not math.isfinite(f0):
            raise NotApplicable('merit function undefined at the start')
        self.optimizers = []       # (front, object, snapshot stack)
        self.ospecs = list(self.hist['operands'])
        self.hist_targets = [o['target'] for o in self.ospecs]
        self.hist_weights = [o['weight'] for o in self.ospecs]
        self.stale = {}     # optimiser slot -> undo depth at the last rebuild
        # trigger of a recorded finding: an index variable on a medium that
        # is not an ideal (constant-index, non-absorbing) one.  Writing such
        # a variable replaces the medium by IdealMaterial(n), which changes
        # the lens at every other wavelength even when the value written is
        # the value just read.
        self.index_on_real_medium = any(
            spec['type'] == 'index' and
            (self.model_of(spec).surfs[spec['k']]['mat'][0] != 'ideal' or
             (len(self.model_of(spec).surfs[spec['k']]['mat']) > 2 and
              self.model_of(spec).surfs[spec['k']]['mat'][2] != 0))
            and self.model_of(spec).surfs[spec['k']]['mat'][0] != 'air'
            for spec in self.vspecs)
        if self.index_on_real_medium:
            self.probe('index_variable_on_real_medium')

    def lens_of(self, spec):
        return self.w2.lens if spec.get('lens') and self.w2 else self.lens

    def model_of(self, spec):
        return self.w2.model if spec.get('lens') and self.w2 else \
            self.w.model

    def var_applicable(self, spec):
        if spec.get('lens') and not self.w2:
            return False
        m = self.model_of(spec)
        k = spec['k']
        t = spec['type']
        if not (0 <= k <= m.n - 1):
            return False
        kind = m.surfs[k]['kind']
        # a quantity that a pickup overwrites on every update is not a free
        # variable
        if t in ('radius', 'conic') and any(
                p['attr'] == t and p['dst'] == k for p in m.pickups):
            return False
        if t == 'radius':
            # an optimisation variable needs a finite starting value
            return 1 <= k <= m.n - 2 and kind != 'plane'
        if t in ('tilt', 'decenter'):
            return 1 <= k <= m.n - 2
        if t == 'conic':
            return 1 <= k <= m.n - 2 and kind != 'plane'
        if t == 'thickness':
            if k > m.n - 2 or (k == 0 and m.infinite_object()):
                return False
            # a gap owned by a solve or a pickup target is not a free variable
            if any(s['k'] - 1 == k for s in m.solves):
                return False
            return not any(p['attr'] == 'thickness' and p['dst'] == k
                           for p in m.pickups)
        if t == 'index':
            return k <= m.n - 2
        if t == 'asphere_coeff':
            return kind == 'even_asphere' and \
                spec['coeff_number'] < len(m.surfs[k]['coeffs'] or [])
        if t == 'polynomial_coeff':
            return kind == 'polynomial'
        if t == 'chebyshev_coeff':
            return kind == 'chebyshev'
        return False

    def merit(self):
        try:
            with quiet(), warnings.catch_warnings():
                warnings.simplefilter('ignore')
                return float(self.problem.sum_squared())
        except Exception:
            return None

    def ztol(self):
        """position round-off at the lens' current size (the optimiser may
        have driven a thickness to 1e14)"""
        z = [abs(f(v)) for v in self.lens.surface_group.positions]
        if self.w2:
            z += [abs(f(v)) for v in self.w2.lens.surface_group.positions]
        z = [v for v in z if math.isfinite(v)]
        return 1e-9 * (1.0 + max(z + [self.w.model.zscale]))

    def watcher(self):
        """(size, hook): the hook records the largest |z| the lens reaches
        after any evaluation of the driver."""
        size = {'max': 0.0}

        def watch():
            for lens in [self.lens] + ([self.w2.lens] if self.w2 else []):
                z = np.asarray(lens.surface_group.positions[1:], dtype=float)
                z = np.abs(z[np.isfinite(z)])
                if z.size:
                    size['max'] = max(size['max'], float(z.max()))
        return size, watch

    def knife_edge(self, rx, rf):
        """The returned point sits on the edge of a region where the merit
        function is undefined (a ray just fails): is there, within 1e-12 of
        x, a point whose merit is the returned objective?  Then whether the
        final lens is on the finite or on the undefined side is decided by
        the last bit of a vertex position, not by the optimiser."""
        vs = self.problem.variables
        found = False
        try:
            with quiet(), warnings.catch_warnings():
                warnings.simplefilter('ignore')
                for j in range(len(vs)):
                    for sgn in (1.0, -1.0):
                        x = list(rx)
                        x[j] += sgn * 1e-12 * (1.0 + abs(x[j]))
                        for var, v in zip(vs, x):
                            var.update(v)
                        self.problem.update_optics()
                        m_ = self.merit()
                        if rf >= 1e10:
                            # the driver saw the ray fail, the final lens
                            # lets it pass: is failure next door?
                            if m_ is None or not math.isfinite(m_):
                                found = True
                                break
                        elif m_ is not None and math.isfinite(m_) and \
                                abs(m_ - rf) <= 1e-5 * abs(rf) + 1e-9:
                            found = True
                            break
                    if found:
                        break
                for var, v in zip(vs, rx):
                    var.update(v)
                self.problem.update_optics()
        except Exception:
            return False
        return found

    def displaced(self):
        """A solve (or an unbounded driver) has put the lens several
        thousand times its own length away from surface 1.  Positions are
        absolute, so every gap then carries the round-off of that distance,
        and how much of it depends on the order of the writes that led
        there: the objective is reproducible only to that noise."""
        z = [abs(f(v)) for v in self.lens.surface_group.positions[1:]]
        if self.w2:
            z += [abs(f(v)) for v in self.w2.lens.surface_group.positions[1:]]
        z = [v for v in z if math.isfinite(v)]
        return bool(z) and max(z) > 3e3 * (1.0 + self.w.model.zscale)

    def snapshot(self):
        with quiet(), warnings.catch_warnings():
            warnings.simplefilter('ignore')
            if self.w2:
                return [canon(self.lens.to_dict()),
                        canon(self.w2.lens.to_dict())]
            return canon(self.lens.to_dict())

    def values(self):
        return [f(v.value) for v in self.problem.variables]

    def physical(self, j):
        """Physical value of the quantity variable j controls, read through a
        fresh unscaled handle."""
        from optiland.optimization.variable import Variable
        spec = self.vspecs[j]
        with quiet():
            h = Variable(self.lens_of(spec), spec['type'], apply_scaling=False,
                         **var_kwargs(spec, from_end=False))
        return f(h.value)

    # ---------------------------------------------------------------- steps
    def step(self, st):
        op = st['op']
        self.stats['ops'][op] = self.stats['ops'].get(op, 0) + 1
        self.stats['steps'] += 1
        getattr(self, 'do_' + op)(st)
        self.rd.add([op, self.values(), self.snapshot()])

    def get_opt(self, i, front):
        from optiland.optimization import (OptimizerGeneric, LeastSquares,
                                           DualAnnealing,
                                           DifferentialEvolution)
        while len(self.optimizers) <= i:
            self.optimizers.append(None)
        if self.optimizers[i] is None or self.optimizers[i][0] != \
                front.split('_')[0][:2]:
            cls = {'generic': OptimizerGeneric, 'generic_m': OptimizerGeneric,
                   'lsq': LeastSquares, 'da': DualAnnealing,
                   'de1': DifferentialEvolution,
                   'dew': DifferentialEvolution}[front]
            try:
                with quiet(), warnings.catch_warnings():
                    warnings.simplefilter('ignore')
                    self.optimizers[i] = [front.split('_')[0][:2],
                                          cls(self.problem), []]
            except Exception:
                # the constructor evaluates the merit function; on a lens the
                # previous steps left untraceable it raises - no run, no
                # verdict
                self.optimizers[i] = None
                raise NotApplicable('optimiser cannot be constructed')
        return self.optimizers[i]

    def do_optimize(self, st):
        front = st['front']
        key = f'optimize:{front}'
        if front == 'generic_m':
            key += ':' + st.get('method', 'Nelder-Mead')
        slot = self.get_opt(st.get('opt', 0), front)
        opt = slot[1]
        x0 = self.values()
        f0 = self.merit()
        if f0 is None:
            raise NotApplicable('merit function raises at the start')
        f0 = sentinel(f0)
        before = self.snapshot()
        bounds = []
        with quiet():
            bounds = [v.bounds for v in self.problem.variables]
        inside = all((b[0] is None or b[0] - 1e-12 <= x) and
                     (b[1] is None or x <= b[1] + 1e-12)
                     for x, b in zip(x0, bounds))
        if st['driver'] == 'stub':
            drv = simopt.StubDriver(st['plan'], [s.get('step', 1e-3)
                                                 for s in self.vspecs],
                                    self.stats['probes'])
        else:
            drv = simopt.RealDriver(st['seed'], self.stats['probes'])
        self.shape.append((front, st['driver']))
        size, watch = self.watcher()
        drv.after_eval = watch
        kwargs = {'maxiter': st.get('maxiter', 5), 'disp': False}
        if front == 'generic_m':
            kwargs['method'] = st.get('method', 'Nelder-Mead')
        if front in ('generic', 'generic_m', 'lsq'):
            kwargs['tol'] = st.get('tol', 1e-3)
        if front == 'de1':
            kwargs['workers'] = 1
        if front == 'dew':
            kwargs['workers'] = -1
        try:
            with simopt.patched(drv), quiet(), warnings.catch_warnings():
                warnings.simplefilter('ignore')
                res = opt.optimize(**kwargs)
        except Exception as e:
            # the statement is conditioned on "when any optimiser returns"
            self.probe(f'optimizer_raised:{type(e).__name__}')
            if slot[2] is not None and len(opt._x) > len(slot[2]):
                slot[2].append(before)
            return
        slot[2].append(before)
        # an unbounded driver may have walked a variable to astronomical
        # values and back; positions are absolute, so the other gaps of the
        # lens were absorbed (1e160 + 27 == 1e160) and nothing can restore
        # them: earlier snapshots are void
        excursion = size['max'] > 1e9 * (1 + self.w.model.zscale) or any(
            np.abs(x).max() > 1e7 for x, _ in getattr(drv, 'trace', [])
            if np.size(x))
        if excursion:
            self.probe('driver_excursion_to_astronomical_values')
            for sl in self.optimizers:
                if sl is not None:
                    sl[2] = [None] * len(sl[2])
        self.stats['state_changes'] += 1
        cfg = 'S' if st['driver'] == 'stub' else 'R'
        self.probe(f'optimize_returned:{cfg}:{front}')
        rx = [float(v) for v in np.ravel(res.x)]
        rf = float(np.ravel(res.fun)[0])
        vals = self.values()
        ztol = self.ztol()
        # (a) variable values equal the returned vector
        self.stats['oracle_checks'] += 1
        for j, (v, x) in enumerate(zip(vals, rx)):
            tol = 1e-11 * max(1.0, abs(x))
            if self.vspecs[j]['type'] == 'thickness':
                # positions are absolute: a gap written while the lens was
                # at the largest size the driver took it to carries the
                # round-off of that size
                tol += ztol + 1e-14 * size['max']
            if not (abs(v - x) <= tol):
                last = getattr(drv, 'trace', None)
                hint = ''
                if last:
                    hint = f'; last point evaluated by the driver: ' \
                           f'{last[-1][0].tolist()}'
                raise Violation('state', f'C14/{key}/state/values',
                                f'optimize() returned x={rx} (fun={rf!r}) '
                                f'but the variables read {vals}{hint}')
        # the driver is part of the environment: when it hands back a pair
        # (x, fun) in which fun is not the value it obtained at x, clauses
        # (b) and (c) have no well-defined "returned objective"
        consistent = drv.consistent(res.x, rf)
        if consistent and any(
                sp['type'] == 'thickness' and abs(self.physical(j)) < 1e-9
                for j, sp in enumerate(self.vspecs)):
            # two coincident surfaces: whether a ray "reaches" the second
            # one is decided by the sign of a rounding error, so the merit
            # function is not a function of the variables there
            self.probe('degenerate_zero_gap_at_solution')
            consistent = False
        if consistent and (self.displaced() or excursion):
            # ... or the driver took it there and back: the gaps that are
            # not variables have absorbed the round-off of that size and the
            # lens is no longer the one the objective was computed on
            self.probe('objective_not_compared_on_displaced_lens')
            self.check_bounds_and_pickups(key, ztol, inside, excursion)
            return
        if not consistent:
            self.stats['faults']['driver_inconsistent_pair'] = \
                self.stats['faults'].get('driver_inconsistent_pair', 0) + 1
            self.check_bounds_and_pickups(key, ztol, inside, excursion)
            return
        # (b) re-evaluating the merit function reproduces the objective
        ss = self.merit()
        self.stats['oracle_checks'] += 1
        if ss is None:
            raise Violation('state', f'C14/{key}/state/merit-raises',
                            'sum_squared() raised after optimize() returned')
        if rf >= 1e10:
            okf = math.isnan(ss) or ss >= 1e10
            self.probe('returned_sentinel')
        else:
            okf = abs(ss - rf) <= 1e-6 * abs(rf) + 1e-10 * max(1.0, f0)
        if not okf and ((rf < 1e10 and not math.isfinite(ss)) or
                        (rf >= 1e10 and math.isfinite(ss))) and \
                self.knife_edge(rx, rf):
            self.probe('solution_on_the_edge_of_ray_failure')
            self.check_bounds_and_pickups(key, ztol, inside, excursion)
            return
        if not okf:
            raise Violation('state', f'C14/{key}/state/objective',
                            f'optimize() returned fun={rf!r} at x={rx}, '
                            f'but sum_squared() on the lens is {ss!r}')
        # (c) not worse than at the start (x0 admissible)
        self.stats['oracle_checks'] += 1
        # round-off floor of the merit function itself: df ~ 2 w^2 |v-t| dv
        # with dv ~ 1e-10 x the length scale of the lens
        wmax = max(abs(w_) for w_ in self.hist_weights)
        noise = 1e-10 * math.sqrt(max(f0, 0.0)) * wmax * \
            (1 + self.w.model.zscale)
        if inside and not (rf <= f0 * (1 + 1e-9) + noise):
            # two recorded causes get a signature of their own (independent
            # of the front end); anything else is reported per front end
            on_bound = any(
                b[0] is not None and b[1] is not None and
                min(abs(x - b[0]), abs(x - b[1])) <=
                1e-6 * abs(b[1] - b[0]) + 1e-12
                for x, b in zip(x0, bounds))
            sig = f'C14/{key}/worse-than-start'
            if self.index_on_real_medium:
                sig = 'C14/optimize/worse-than-start/' \
                      'index-variable-on-real-medium'
            elif st['driver'] == 'real':
                # call-site class (see known_findings.json); the cause is
                # kept in the detail
                sig = 'C14/optimize/worse-than-start/real-scipy-driver'
                key += ' [start on a bound]' if on_bound else ''
            raise Violation('worse', sig, f'{key}: ' +
                            f'objective at the start {f0!r}, returned '
                            f'{rf!r}')
        if not inside:
            self.stats['faults']['x0_outside_bounds'] = \
                self.stats['faults'].get('x0_outside_bounds', 0) + 1
        self.check_bounds_and_pickups(key, ztol, inside, excursion)
        if rx != x0:
            self.probe('returned_point_differs_from_start')

    def check_bounds_and_pickups(self, key, ztol, inside=True,
                                 excursion=False):
        # (d) bounded variables inside their bounds, in physical units (for
        # an admissible start: some drivers hand back an inadmissible start
        # unchanged)
        for j, spec in enumerate(self.vspecs if inside else []):
            lo, hi = spec.get('min'), spec.get('max')
            if lo is None and hi is None:
                continue
            p = self.physical(j)
            tol = 1e-9 * max(1.0, abs(p)) + (ztol if spec['type'] ==
                                             'thickness' else 0.0)
            self.stats['oracle_checks'] += 1
            if (lo is not None and p < lo - tol) or \
                    (hi is not None and p > hi + tol):
                raise Violation('bounds', f'C14/{key}/out-of-bounds/'
                                f'{spec["type"]}',
                                f'variable {spec} ended at physical value '
                                f'{p!r}, bounds [{lo}, {hi}]')
        # (e) pickups and solves satisfied
        if excursion and self.w.model.solves:
            # the evaluation before the final write left the solved surface
            # 1e12 away: the one solve pass of the final write computes its
            # shift as a difference of numbers of that size
            self.probe('solve_check_skipped_after_astronomical_excursion')
            return
        self.check_pickups_solves(key)

    def do_compensate(self, st):
        """The compensator front end of the tolerancing module: an
        OptimizationProblem subclass that builds its own optimiser and
        returns scipy's result."""
        from optiland.tolerancing.compensator import CompensatorOptimizer
        method = st.get('method', 'generic')
        key = f'compensate:{method}'
        comp = CompensatorOptimizer(method=method, tol=st.get('tol', 1e-5))
        comp.operands = self.problem.operands
        comp.variables = self.problem.variables
        if any(v.get('min') is not None or v.get('max') is not None
               for v in self.vspecs) and method == 'generic' and \
                st['driver'] == 'real':
            pass
        x0 = self.values()
        f0 = self.merit()
        if f0 is None:
            raise NotApplicable('merit function raises at the start')
        drv = simopt.StubDriver(st['plan'], [s.get('step', 1e-3)
                                             for s in self.vspecs],
                                self.stats['probes']) \
            if st['driver'] == 'stub' else \
            simopt.RealDriver(st['seed'], self.stats['probes'])
        self.shape.append(('compensate', method, st['driver']))
        size, watch = self.watcher()
        drv.after_eval = watch
        try:
            with simopt.patched(drv), quiet(), warnings.catch_warnings():
                warnings.simplefilter('ignore')
                res = comp.run()
        except Exception as e:
            self.probe(f'optimizer_raised:{type(e).__name__}')
            return
        # no undo stack of ours is touched, but the lens moved
        for sl in self.optimizers:
            if sl is not None:
                sl[2] = [None] * len(sl[2])
        self.stats['state_changes'] += 1
        self.probe(f'optimize_returned:{"S" if st["driver"] == "stub" else "R"}'
                   f':compensator_{method}')
        if not bool(getattr(res, 'success', True)):
            self.probe('driver_reported_no_convergence')
        rx = [float(v) for v in np.ravel(res.x)]
        rf = float(np.ravel(res.fun)[0])
        if not all(map(math.isfinite, rx)):
            return
        vals = self.values()
        ztol = self.ztol()
        self.stats['oracle_checks'] += 1
        for j, (v, x) in enumerate(zip(vals, rx)):
            tol = 1e-11 * max(1.0, abs(x))
            if self.vspecs[j]['type'] == 'thickness':
                tol += ztol + 1e-14 * size['max']
            if not (abs(v - x) <= tol):
                raise Violation('state', f'C14/{key}/state/values',
                                f'CompensatorOptimizer.run() returned x={rx} '
                                f'(fun={rf!r}, success='
                                f'{getattr(res, "success", None)}) but the '
                                f'variables read {vals}')
        if drv.consistent(res.x, rf) and (
                self.displaced() or
                size['max'] > 1e9 * (1 + self.w.model.zscale)):
            self.probe('objective_not_compared_on_displaced_lens')
        elif drv.consistent(res.x, rf):
            ss = self.merit()
            self.stats['oracle_checks'] += 1
            okc = ss is not None and (
                (rf >= 1e10 and (math.isnan(ss) or ss >= 1e10)) or
                abs(ss - rf) <= 1e-6 * abs(rf) +
                1e-10 * max(1.0, sentinel(f0)))
            if not okc and ss is not None and (
                    (rf < 1e10 and not math.isfinite(ss)) or
                    (rf >= 1e10 and math.isfinite(ss))) and \
                    self.knife_edge(rx, rf):
                self.probe('solution_on_the_edge_of_ray_failure')
            elif not okc:
                raise Violation('state', f'C14/{key}/state/objective',
                                f'run() returned fun={rf!r} at x={rx}, but '
                                f'sum_squared() on the lens is {ss!r}')
        if size['max'] > 1e9 * (1 + self.w.model.zscale) and \
                self.w.model.solves:
            self.probe('solve_check_skipped_after_astronomical_excursion')
        else:
            self.check_pickups_solves(key)

    def check_pickups_solves(self, key):
        w = self.w
        m = w.model
        if not (m.pickups or m.solves):
            return
        z = [abs(f(v)) for v in self.lens.surface_group.positions[1:]]
        if not all(map(math.isfinite, z)) or max(z) > 1e8 * (1 + m.zscale):
            # an unbounded driver took the lens to astronomical size: a
            # height of order one cannot be resolved there
            self.probe('pickup_solve_check_skipped_lens_at_astronomical_size')
            return
        w.opname = 'optimize'
        try:
            w.check_pickups()
            w.check_solves()
        except history.Abort:
            return
        except history.Violation as v:
            raise Violation('pickups', f'C14/{key}/{v.signature.split("/", 2)[2]}',
                            v.detail)
        self.probe('pickups_solves_checked_after_optimize')

    def do_undo(self, st):
        i = st.get('opt', 0)
        if i >= len(self.optimizers) or self.optimizers[i] is None:
            raise NotApplicable('no optimiser')
        slot = self.optimizers[i]
        opt = slot[1]
        if len(getattr(opt, '_x', [])) <= self.stale.get(i, 0) and \
                i in self.stale:
            # what is left of this optimiser's history belongs to the
            # variables of a problem that has since been cleared
            raise NotApplicable('history predates the rebuilt problem')
        try:
            with quiet(), warnings.catch_warnings():
                warnings.simplefilter('ignore')
                opt.undo()
        except Exception as e:
            raise Violation('sut-exception', f'C14/undo/exception/'
                            f'{history.norm_msg(e)}', f'undo() raised {e!r}')
        if not slot[2]:
            self.probe('undo_on_empty_stack')
            return
        want = slot[2].pop()
        if want is None:
            self.probe('undo_after_hand_edit_not_compared')
            return
        got = self.snapshot()
        self.stats['oracle_checks'] += 1
        ok, where = same(got, want, rtol=1e-12, atol=self.ztol())
        self.stats['state_changes'] += 1
        if not ok:
            key = '/'.join(x for x in where.split(':')[0].split('/')
                           if x and not x.isdigit())
            if self.index_on_real_medium and 'material' in key:
                key += '/index-variable-on-real-medium'
            raise Violation('undo', f'C14/undo/not-restored/{key}',
                            f'after undo() the lens differs from its state '
                            f'before the run: {where}')
        self.probe('undo_checked')

    def do_edit(self, st):
        """A hand edit of a quantity that is not a variable (between runs)."""
        m = self.w.model
        op = dict(st['edit'])
        kind = op['op']
        attr = {'set_radius': 'radius', 'set_conic': 'conic',
                'set_thickness': 'thickness'}[kind]
        k = m.idx(op['k'], 1, m.n - 2)
        if any(s['type'] == attr and s['k'] == k for s in self.vspecs) or \
                any(p['attr'] == attr and k in (p['dst'],)
                    for p in m.pickups) or \
                (attr == 'thickness' and any(s['k'] - 1 == k
                                             for s in m.solves)):
            raise NotApplicable('quantity is controlled by the problem')
        if attr == 'radius' and m.is_plane(k):
            raise NotApplicable('plane')
        with quiet(), warnings.catch_warnings():
            warnings.simplefilter('ignore')
            if kind == 'set_radius':
                self.lens.set_radius(op['v'], k)
                m.set_radius(k, op['v'])
            elif kind == 'set_conic':
                if m.is_plane(k):
                    raise NotApplicable('plane')
                self.lens.set_conic(op['v'], k)
                m.set_conic(k, op['v'])
            else:
                self.lens.set_thickness(op['v'], k)
                m.set_thickness(k, op['v'])
            self.lens.update()
        # undo() cannot take back a hand edit: earlier snapshots no longer
        # describe "the state before the run"
        for slot in self.optimizers:
            if slot is not None:
                slot[2] = [None] * len(slot[2])
        self.stats['state_changes'] += 1
        self.probe('hand_edit_between_runs')

    def do_rebuild(self, st):
        """The user clears the problem's variables and / or operands and
        adds them again in another order (or without the last operand); the
        optimiser objects made earlier are used again afterwards."""
        did = False
        with quiet(), warnings.catch_warnings():
            warnings.simplefilter('ignore')
            nv = len(self.vspecs)
            r = st.get('vrot', 0) % nv if nv else 0
            if nv >= 2 and r:
                self.vspecs = self.vspecs[r:] + self.vspecs[:r]
                self.problem.clear_variables()
                for spec in self.vspecs:
                    self.problem.add_variable(
                        self.lens_of(spec), spec['type'],
                        min_val=spec.get('min'), max_val=spec.get('max'),
                        apply_scaling=bool(spec.get('scaled', True)),
                        **var_kwargs(spec))
                did = True
            no = len(self.ospecs)
            r = st.get('orot', 0) % no if no else 0
            drop = bool(st.get('drop')) and no >= 2
            if (no >= 2 and r) or drop:
                order = list(range(no))
                order = order[r:] + order[:r]
                if drop:
                    order = order[:-1]
                self.ospecs = [self.ospecs[j] for j in order]
                self.hist_targets = [self.hist_targets[j] for j in order]
                self.hist_weights = [self.hist_weights[j] for j in order]
                self.problem.clear_operands()
                for spec, t_, w_ in zip(self.ospecs, self.hist_targets,
                                        self.hist_weights):
                    self.problem.add_operand(
                        spec['type'], t_, w_,
                        operand_input(self.lens_of(spec), spec))
                did = True
        if not did:
            raise NotApplicable('nothing to reorder')
        for i, slot in enumerate(self.optimizers):
            if slot is not None:
                self.stale[i] = len(getattr(slot[1], '_x', []))
        self.probe('problem_rebuilt')

    def do_retarget(self, st):
        j = st['operand'] % len(self.problem.operands)
        o = self.problem.operands[j]
        if 'target' in st:
            o.target = st['target']
            self.hist_targets[j] = st['target']
        if 'weight' in st:
            o.weight = st['weight']
            self.hist_weights[j] = st['weight']
        self.probe('operand_retargeted')

    def do_poke(self, st):
        """handle faithfulness: setting then reading returns the value set"""
        j = st['var'] % len(self.problem.variables)
        var = self.problem.variables[j]
        spec = self.vspecs[j]
        # the poke is relative to the current value, in units of the
        # variable's characteristic step, and stays inside the bounds (a
        # problem whose bounds exclude the start is outside the domain)
        v = f(var.value) + st['v'] * spec.get('step', 1e-3)
        with quiet():
            lo, hi = var.bounds
        if lo is not None and hi is not None:
            lo, hi = f(lo), f(hi)
            if not (lo <= v <= hi):
                v = lo + (hi - lo) * (abs(st['v']) % 1.0)
        elif (lo is not None and v < f(lo)) or \
                (hi is not None and v > f(hi)):
            raise NotApplicable('poke would leave the bounds')
        try:
            with quiet(), warnings.catch_warnings():
                warnings.simplefilter('ignore')
                var.update(v)
                got = f(var.value)
                # keep pickups / solves consistent, as a user editing the
                # lens by hand would (undo() can only restore a lens that
                # was consistent before the run)
                self.lens.update()
        except Exception as e:
            raise Violation('sut-exception', f'C14/variable:{spec["type"]}/'
                            f'exception/{history.norm_msg(e)}',
                            f'update({v!r}) / value raised {e!r}')
        tol = 1e-12 * (1 + abs(v))
        if spec['type'] == 'thickness':
            tol += self.ztol() + 1e-9 * abs(v)
        self.stats['oracle_checks'] += 1
        self.stats['state_changes'] += 1
        if not abs(got - v) <= tol:
            raise Violation('handle', f'C14/variable:{spec["type"]}/readback',
                            f'variable {spec}: update({v!r}) then value = '
                            f'{got!r}')

    def do_bounds(self, st):
        """bounds are expressed in the same (scaled) units as the value:
        the lower bound is what `value` reads when the physical quantity
        equals min_val — established on a twin lens, no scale constants."""
        from optiland.optimization.variable import Variable
        j = st['var'] % len(self.problem.variables)
        var = self.problem.variables[j]
        spec = self.vspecs[j]
        if spec.get('min') is None and spec.get('max') is None:
            raise NotApplicable('unbounded')
        with quiet(), warnings.catch_warnings():
            warnings.simplefilter('ignore')
            if spec.get('lens') and self.w2:
                w2 = history.World('C14', {})
                for op_ in self.hist['build2']:
                    w2.step(op_)
                twin = w2.lens
            else:
                twin = Sim(self.prop, self.hist).build_world().lens
            kw = var_kwargs(spec)
            hu = Variable(twin, spec['type'], apply_scaling=False, **kw)
            hs = Variable(twin, spec['type'],
                          apply_scaling=bool(spec.get('scaled', True)), **kw)
            got = var.bounds
            for which, phys in ((0, spec.get('min')), (1, spec.get('max'))):
                if phys is None:
                    if got[which] is not None:
                        raise Violation('bounds-units', f'C14/variable:'
                                        f'{spec["type"]}/bounds-units',
                                        f'bound {which} is {got[which]!r}, '
                                        f'none was given')
                    continue
                hu.update(phys)
                want = f(hs.value)
                tol = 1e-12 * (1 + abs(want))
                if spec['type'] == 'thickness':
                    tol += self.ztol()
                self.stats['oracle_checks'] += 1
                if got[which] is None or not abs(f(got[which]) - want) <= tol:
                    raise Violation(
                        'bounds-units',
                        f'C14/variable:{spec["type"]}/bounds-units',
                        f'variable {spec}: bounds={got}, but when the '
                        f'quantity equals the bound {phys!r} the variable '
                        f'reads {want!r}')
        self.probe('bounds_units_checked')

    def do_merit(self, st):
        """merit function = sum over operands of (weight*(value-target))^2,
        recomputed independently from the registry functions"""
        from optiland.optimization.operand import operand_registry
        tot = 0.0
        try:
            with quiet(), warnings.catch_warnings():
                warnings.simplefilter('ignore')
                for j, spec in enumerate(self.ospecs):
                    fn = operand_registry.get(spec['type'])
                    v = float(fn(**operand_input(self.lens_of(spec), spec)))
                    tot += (self.hist_weights[j] *
                            (v - self.hist_targets[j])) ** 2
        except Exception:
            raise NotApplicable('operand raised')
        ss = self.merit()
        self.stats['oracle_checks'] += 1
        ok = ss is not None and (
            (math.isnan(tot) and math.isnan(ss)) or
            abs(ss - tot) <= 1e-12 * max(abs(tot), abs(ss)))
        if not ok:
            raise Violation('merit', 'C14/merit/definition',
                            f'sum_squared() = {ss!r}, sum of (w*(v-t))^2 '
                            f'over the operands = {tot!r}')
        self.probe('merit_definition_checked')


# --------------------------------------------------------------------------
def execute(prop, hist):
    sim = Sim(prop, hist)
    viol = None
    try:
        sim.setup()
        for st in hist['steps']:
            try:
                sim.step(st)
            except NotApplicable:
                continue
    except NotApplicable:
        sim.probe('not_applicable')
    except Violation as v:
        viol = {'class': v.cls, 'signature': v.signature, 'detail': v.detail,
                'step': sim.stats['steps'], 'property': prop}
    st = sim.stats
    nopt = sum(v for k, v in st['probes'].items()
               if k.startswith('optimize_returned'))
    return {'history': hist, 'violation': viol, 'stats': st,
            'digest': sim.rd.hex(), 'step_digests': sim.rd.steps[-5:],
            'shape': digest(sim.shape + [s['op'] for s in hist['steps']], 12),
            'final': sim.rd.steps[-1] if sim.rd.steps else '',
            'nontrivial': nopt >= 1 and st['oracle_checks'] >= 3}


STEP = {'radius': (0.5, 0.005), 'thickness': (0.2, 0.02),
        'index': (0.01, 0.01), 'conic': (0.05, 0.05),
        'tilt': (0.002, 0.002), 'decenter': (0.05, 0.05)}


def gen_variable(ch, m):
    n = m.n
    kinds = {s['kind'] for s in m.surfs}
    avail = [('radius', 4), ('thickness', 4), ('index', 2), ('conic', 2),
             ('tilt', 1), ('decenter', 1)]
    if 'even_asphere' in kinds:
        avail.append(('asphere_coeff', 3))
    if 'polynomial' in kinds:
        avail.append(('polynomial_coeff', 3))
    if 'chebyshev' in kinds:
        avail.append(('chebyshev_coeff', 3))
    t = ch.weighted(avail, tag='vtype')
    scaled = ch.chance(0.5)
    spec = {'type': t, 'scaled': scaled}
    want = {'asphere_coeff': 'even_asphere', 'polynomial_coeff': 'polynomial',
            'chebyshev_coeff': 'chebyshev'}.get(t)
    if want:
        ks = [k for k in range(1, n - 1) if m.surfs[k]['kind'] == want]
        k = ch.pick(ks)
    elif t == 'conic':
        ks = [k for k in range(1, n - 1) if not m.is_plane(k)]
        if not ks:
            return None
        k = ch.pick(ks)
    elif t == 'thickness':
        k = ch.randint(1, n - 2)
    elif t == 'index':
        ideal = [k for k in range(1, n - 1)
                 if m.surfs[k]['mat'][0] == 'ideal' and
                 (len(m.surfs[k]['mat']) < 3 or m.surfs[k]['mat'][2] == 0)]
        if ideal and not ch.chance(0.1):
            k = ch.pick(ideal)
        else:
            k = ch.randint(1, n - 2)
    elif t == 'radius':
        # flat surfaces (also ones a pickup from a flat source has made
        # flat) have no finite starting value
        ks = [k for k in range(1, n - 1) if not m.is_plane(k)
              and math.isfinite(m.surfs[k]['radius'])]
        if not ks:
            return None
        k = ch.pick(ks)
    else:
        k = ch.randint(1, n - 2)
    spec['k'] = k
    s = m.surfs[k]
    cur = None
    if t == 'radius':
        cur = s['radius'] if math.isfinite(s['radius']) else 100.0
    elif t == 'thickness':
        cur = s['t']
    elif t == 'conic':
        cur = s['conic'] or 0.0
    elif t == 'index':
        spec['wavelength'] = history.PROBE_WLS[ch.randint(0, 2)]
        cur = history.ref_n(s['mat'], spec['wavelength'])
    elif t == 'asphere_coeff':
        spec['coeff_number'] = ch.randint(0, len(s['coeffs']) - 1)
        cur = s['coeffs'][spec['coeff_number']]
    elif t in ('polynomial_coeff', 'chebyshev_coeff'):
        spec['coeff_index'] = [ch.randint(0, 2), ch.randint(0, 2)]
        i, j = spec['coeff_index']
        c = s['coeffs'] or [[0.0]]
        cur = float(c[i][j]) if i < len(c) and j < len(c[i]) else 0.0
    elif t in ('tilt', 'decenter'):
        spec['axis'] = ch.pick(['x', 'y'])
        cur = s[('r' if t == 'tilt' else 'd') + spec['axis']]
    if t in STEP:
        spec['step'] = STEP[t][1 if scaled else 0]
    elif t == 'asphere_coeff':
        i = spec['coeff_number']
        phys = max(abs(cur), 10.0 ** (-6 - 2 * i)) * 0.05
        spec['step'] = phys * (10 ** (4 + 2 * i) if scaled else 1.0)
    else:
        spec['step'] = 1e-7
    # bounds in physical units
    if ch.chance(0.55):
        span = {'radius': 20.0, 'thickness': 3.0, 'index': 0.2, 'conic': 1.0,
                'tilt': 0.05, 'decenter': 1.0}.get(t, max(abs(cur), 1e-6) * 5)
        lo = ch.rounded(cur - span * ch.uniform(0.2, 1.0), 6)
        hi = ch.rounded(cur + span * ch.uniform(0.2, 1.0), 6)
        if t == 'index':
            lo = max(lo, 1.0)
        if t != 'index' and ch.chance(0.15):
            # a bound of exactly zero (int or float) is a legitimate bound
            z = ch.pick([0, 0.0], tag='zero')
            if cur > 0:
                lo = z
            elif cur < 0:
                hi = z
            elif ch.chance(0.5):
                lo = z
            else:
                hi = z
        if ch.chance(0.06):
            # injected fault: bounds that exclude the starting value.  Only
            # the clauses that do not presuppose an admissible start are
            # judged then (state == result.x, undo restores the lens)
            lo, hi = ch.rounded(cur + span * 0.1, 6), \
                ch.rounded(cur + span, 6)
        spec['min'], spec['max'] = lo, hi
        if ch.chance(0.1):
            spec[ch.pick(['min', 'max'])] = None
    if t in ('thickness', 'radius', 'conic', 'tilt', 'decenter') and \
            1 <= k <= n - 2 and ch.chance(0.12):
        spec['neg'] = True
        spec['nsurf'] = n
    return spec


def gen_operand(ch, m):
    n = m.n
    t = ch.weighted([('f2', 4), ('XPL', 1), ('EPL', 1), ('seidel', 2),
                     ('TSC_sum', 1), ('LchC_sum', 0.5),
                     ('real_y_intercept', 3), ('real_M', 1),
                     ('rms_spot_size', 3), ('OPD_difference', 1)],
                    tag='optype')
    inp = {}
    if t == 'seidel':
        inp = {'seidel_number': ch.randint(1, 5)}
    elif t.startswith('real_'):
        inp = {'surface_number': n - 1, 'Hx': 0.0, 'Hy': ch.pick([0.0, 1.0]),
               'Px': 0.0, 'Py': ch.pick([1.0, 0.7, -1.0]),
               'wi': ch.randint(0, 2)}
    elif t == 'rms_spot_size':
        inp = {'surface_number': n - 1, 'Hx': 0.0,
               'Hy': ch.pick([0.0, 1.0]), 'num_rays': ch.randint(1, 2),
               'wi': ch.randint(0, 2), 'distribution': 'hexapolar'}
        if ch.chance(0.25):
            nn = ch.randint(5, 12)
            inp['distribution'] = ch.pick(
                [['random', ch.randint(0, 50), nn], ['obj', 'uniform', 4],
                 ['obj', 'ring', nn]], tag='opdist')
            inp['num_rays'] = ch.pick([nn, nn + 3, 3])
    elif t == 'OPD_difference':
        inp = {'Hx': 0.0, 'Hy': 0.0, 'num_rays': ch.randint(1, 2),
               'wi': ch.randint(0, 2)}
    return {'type': t, 'input': inp, 'target': None,
            'weight': ch.pick([1, 1.0, 0.1, 10.0, ch.rounded(
                ch.uniform(0.2, 3), 3)])}


def gen_plan(ch, nvar, n):
    plan = []
    if ch.chance(0.3):
        # the driver reports "not converged" (budget exhausted, ...): the
        # contract promises a result either way
        plan.append(['flag', 'fail'])
    for _ in range(n):
        k = ch.weighted([('rel', 7), ('repeat', 1.5), ('far', 1)], tag='pt')
        if k == 'repeat':
            plan.append(['repeat', ch.randint(0, 20)])
        else:
            plan.append([k, [ch.rounded(ch.uniform(-2, 2), 3)
                             for _ in range(nvar)]])
    return plan


def run_one(prop, run_seed, run_index, cfg):
    ch = rng.Chooser(run_seed)
    feats = lensgen.pick_features(ch, FEATS, 0.25)
    build, meta = lensgen.gen_lens(ch, feats, max_surf=6)
    # a scratch world only to know the model while generating
    w = history.World('C14', {})
    try:
        for op in build:
            w.step(op)
    except (history.Violation, history.Abort):
        return execute(prop, {'build': build, 'pre': [], 'operands': [],
                              'variables': [], 'steps': []})
    pre = []
    sw = {'kinds': ['pickup', 'solve'], 'weights': {'pickup': 1, 'solve': 1},
          'nasty': 0.0}
    if ch.chance(0.4):
        for _ in range(ch.randint(1, 3)):
            op = history.gen_edit(ch, w, sw)
            if op is None:
                continue
            try:
                if w.step(op):
                    pre.append(op)
            except (history.Violation, history.Abort):
                break
    m = w.model
    variables = []
    for _ in range(ch.randint(1, cfg.get('max_vars', 4))):
        v = gen_variable(ch, m)
        if v is not None and not any(
                (o['type'], o['k'], o.get('coeff_number'), o.get('axis'),
                 o.get('coeff_index')) ==
                (v['type'], v['k'], v.get('coeff_number'), v.get('axis'),
                 v.get('coeff_index')) for o in variables):
            variables.append(v)
    operands = [gen_operand(ch, m) for _ in range(ch.randint(1, 4))]
    # targets: around the current value, evaluated on the scratch lens
    from optiland.optimization.operand import operand_registry
    for o in operands:
        try:
            with quiet(), warnings.catch_warnings():
                warnings.simplefilter('ignore')
                cur = float(operand_registry.get(o['type'])(
                    **operand_input(w.lens, o)))
        except Exception:
            cur = 0.0
        if not math.isfinite(cur):
            cur = 0.0
        o['target'] = ch.pick([0, 0.0, ch.rounded(cur * ch.uniform(0.8, 1.2)
                                                  + ch.uniform(-0.1, 0.1),
                                                  5)])
    build2 = None
    if ch.chance(0.2):
        # a second, small lens in the same problem; its variables are
        # interleaved with those of the first (A, B, A, ...)
        build2, _m2 = lensgen.gen_lens(ch, set(ch.subset(
            ['conic', 'finite_obj', 'planes'], 0.3)), nsurf=ch.randint(2, 3))
        w2 = history.World('C14', {})
        try:
            for op in build2:
                w2.step(op)
            extra = []
            for _ in range(ch.randint(1, 2)):
                v = gen_variable(ch, w2.model)
                if v is not None and v['type'] in ('radius', 'thickness',
                                                   'conic') and not any(
                        (e['type'], e['k']) == (v['type'], v['k'])
                        for e in extra):
                    v['lens'] = 1
                    extra.append(v)
            for j, v in enumerate(extra):
                variables.insert(min(len(variables), 2 * j + 1), v)
            o2 = gen_operand(ch, w2.model)
            o2['lens'] = 1
            try:
                with quiet(), warnings.catch_warnings():
                    warnings.simplefilter('ignore')
                    cur = float(operand_registry.get(o2['type'])(
                        **operand_input(w2.lens, o2)))
            except Exception:
                cur = 0.0
            o2['target'] = ch.rounded((cur if math.isfinite(cur) else 0.0) *
                                      ch.uniform(0.8, 1.2), 5)
            operands.append(o2)
        except (history.Violation, history.Abort):
            build2 = None
    driver = 'stub' if ch.chance(cfg.get('p_stub', 0.6)) else 'real'
    steps = []
    nv = max(1, len(variables))
    for _ in range(ch.randint(2, cfg.get('max_hist', 7))):
        k = ch.weighted([('optimize', 5), ('undo', 2.5), ('poke', 1),
                         ('bounds', 1), ('merit', 1), ('edit', 1),
                         ('retarget', 0.7), ('compensate', 1.2),
                         ('rebuild', 0.7)], tag='step')
        if k == 'optimize':
            bounded_all = all(v.get('min') is not None and
                              v.get('max') is not None for v in variables)
            fronts = [('generic', 3), ('generic_m', 2), ('lsq', 3)]
            if bounded_all:
                fronts += [('da', 1.5), ('de1', 1.5), ('dew', 2.5)]
            front = ch.weighted(fronts, tag='front')
            prev = [s_ for s_ in steps if s_['op'] == 'optimize']
            if prev and ch.chance(0.4):
                # the same optimiser object again (optimise/undo/optimise)
                front = prev[-1]['front']
                if front in ('da', 'de1', 'dew') and not bounded_all:
                    front = 'lsq'
            st = {'op': 'optimize', 'front': front, 'driver': driver,
                  'opt': prev[-1]['opt'] if prev and ch.chance(0.6)
                  else ch.randint(0, 1)}
            if front == 'generic_m':
                # BFGS / CG ignore bounds (scipy warns): only without bounds
                any_bound = any(v.get('min') is not None or
                                v.get('max') is not None for v in variables)
                st['method'] = ch.pick(
                    ['Nelder-Mead', 'Powell', 'L-BFGS-B', 'SLSQP', 'TNC'] +
                    ([] if any_bound else ['BFGS', 'CG']))
            if driver == 'stub':
                st['plan'] = gen_plan(ch, nv, ch.randint(2, 12))
            else:
                st['seed'] = ch.seed32()
                st['maxiter'] = ch.randint(1, 3) if front in (
                    'da', 'de1', 'dew') else ch.randint(2, 15)
                st['tol'] = ch.pick([1e-3, 1e-6])
            steps.append(st)
        elif k == 'compensate':
            st = {'op': 'compensate', 'driver': driver,
                  'method': ch.pick(['generic', 'least_squares']),
                  'tol': ch.pick([1e-5, 1e-3])}
            if driver == 'stub':
                st['plan'] = gen_plan(ch, nv, ch.randint(2, 10))
            else:
                st['seed'] = ch.seed32()
            steps.append(st)
        elif k == 'undo':
            steps.append({'op': 'undo', 'opt': ch.randint(0, 1)})
        elif k == 'edit':
            kind = ch.pick(['set_radius', 'set_conic', 'set_thickness'])
            kk = ch.randint(1, max(1, m.n - 2))
            cur = {'set_radius': m.surfs[kk]['radius'],
                   'set_conic': m.surfs[kk]['conic'] or 0.0,
                   'set_thickness': m.surfs[kk]['t']}[kind]
            if not math.isfinite(cur):
                cur = 100.0
            delta = {'set_radius': 0.05 * abs(cur) + 1, 'set_conic': 0.2,
                     'set_thickness': 0.5}[kind]
            steps.append({'op': 'edit', 'edit': {
                'op': kind, 'k': kk,
                'v': ch.rounded(cur + ch.uniform(-1, 1) * delta, 6)}})
        elif k == 'rebuild':
            steps.append({'op': 'rebuild', 'vrot': ch.randint(0, 2),
                          'orot': ch.randint(0, 2),
                          'drop': ch.chance(0.3)})
        elif k == 'retarget':
            st = {'op': 'retarget', 'operand': ch.randint(0, 3)}
            if ch.chance(0.7):
                st['target'] = ch.rounded(ch.uniform(-50, 150), 4)
            else:
                st['weight'] = ch.pick([0.5, 2.0, 1, 3.0])
            steps.append(st)
        elif k == 'poke':
            j = ch.randint(0, nv - 1)
            steps.append({'op': 'poke', 'var': j,
                          'v': ch.rounded(ch.uniform(-3, 3), 4)})
        else:
            steps.append({'op': k, 'var': ch.randint(0, nv - 1)})
    # pokes use values near the current one (in the variable's units)
    hist = {'build': build, 'build2': build2, 'pre': pre,
            'operands': operands,
            'variables': variables, 'steps': steps, 'driver': driver,
            'shrinkable': ['steps', 'pre', 'operands', 'variables']}
    res = execute(prop, hist)
    res['draws'] = ch.ndraws
    return res


def replay(prop, hist):
    return execute(prop, hist)


def simplify(prop, hist):
    edits = []
    for i, st in enumerate(hist['steps']):
        if st.get('plan'):
            for j in range(len(st['plan']) - 1, -1, -1):
                def e(h, i=i, j=j):
                    if j >= len(h['steps'][i].get('plan', [])):
                        return None
                    del h['steps'][i]['plan'][j]
                    return h
                edits.append(e)
    for i, op in enumerate(hist['build']):
        if op.get('op') != 'add_surface':
            continue
        for key in ('aperture', 'rx', 'ry', 'dx', 'dy', 'conic'):
            if key in op:
                def e2(h, i=i, key=key):
                    h['build'][i].pop(key, None)
                    return h
                edits.append(e2)
    return edits
