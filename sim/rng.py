"""Seed derivation and the decision-logging chooser.

One integer (VERIF_SEED) decides everything: run_seed = mix(VERIF_SEED,
property, run index) -> random.Random(run_seed).  Every draw goes through
Chooser, which appends it to a decision log (the log never draws).
"""
import math
import random
import zlib

MASK = (1 << 64) - 1


def splitmix64(x):
    x = (x + 0x9E3779B97F4A7C15) & MASK
    z = x
    z = ((z ^ (z >> 30)) * 0xBF58476D1CE4E5B9) & MASK
    z = ((z ^ (z >> 27)) * 0x94D049BB133111EB) & MASK
    return z ^ (z >> 31)


def derive(seed, *parts):
    """Deterministic 64-bit seed from a base seed and any str/int parts."""
    x = splitmix64(seed & MASK)
    for p in parts:
        if isinstance(p, str):
            p = zlib.crc32(p.encode())
        x = splitmix64(x ^ (int(p) & MASK))
    return x


class Chooser:
    """All randomness of one run.  Records (tag, value) of every decision."""

    def __init__(self, seed):
        self.seed = seed
        self._r = random.Random(seed)
        self.log = []
        self.ndraws = 0

    def side(self, tag):
        """An independent sub-stream of the same run (same seed, other tag).
        A generator feature added late draws from one, so that every decision
        of the main stream - and with it every run the feature does not touch
        - stays what it was."""
        c = Chooser(derive(self.seed, 'side', tag))
        c.log = self.log
        return c

    def _rec(self, tag, v):
        self.ndraws += 1
        if len(self.log) < 4000:
            self.log.append((tag, v))
        return v

    def chance(self, p, tag='chance'):
        return self._rec(tag, self._r.random() < p)

    def randint(self, a, b, tag='int'):
        return self._rec(tag, self._r.randint(a, b))

    def pick(self, seq, tag='pick'):
        seq = list(seq)
        return seq[self._rec(tag, self._r.randrange(len(seq)))]

    def weighted(self, pairs, tag='wpick'):
        """pairs: list of (item, weight)."""
        pairs = [(i, w) for i, w in pairs if w > 0]
        tot = sum(w for _, w in pairs)
        x = self._r.random() * tot
        acc = 0.0
        idx = len(pairs) - 1
        for j, (_, w) in enumerate(pairs):
            acc += w
            if x < acc:
                idx = j
                break
        self._rec(tag, idx)
        return pairs[idx][0]

    def uniform(self, a, b, tag='uni'):
        return self._rec(tag, self._r.uniform(a, b))

    def loguniform(self, a, b, tag='loguni'):
        return self._rec(tag, math.exp(self._r.uniform(math.log(a),
                                                       math.log(b))))

    def subset(self, seq, p, tag='subset', at_least=0):
        seq = list(seq)
        out = [s for s in seq if self._r.random() < p]
        while len(out) < min(at_least, len(seq)):
            c = seq[self._r.randrange(len(seq))]
            if c not in out:
                out.append(c)
        self._rec(tag, len(out))
        return out

    def shuffle(self, seq, tag='shuffle'):
        seq = list(seq)
        self._r.shuffle(seq)
        self._rec(tag, len(seq))
        return seq

    def seed32(self, tag='seed32'):
        return self._rec(tag, self._r.randrange(1 << 31))

    def rounded(self, x, sig=6):
        """Round to few significant digits so replay files stay readable."""
        if x == 0 or not math.isfinite(x):
            return x
        return float(f'%.{sig}g' % x)
