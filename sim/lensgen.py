"""Seeded lens generator: produces *build operations* (plain JSON) that
construct a lens through the public API in index order.

Lenses are kept physically tame (apertures and fields small against radii) so
most rays are valid; `harsh=True` relaxes that where ray failure is the fault
being injected.
"""
import math

from sim.sut import INF, SAMPLES

GLASSES = [['glass', 'N-BK7', 'schott'], ['glass', 'N-SF11', 'schott'],
           ['glass', 'SF6', 'schott'], ['glass', 'N-LAK9', 'schott'],
           ['glass', 'F2', 'schott'], ['glass', 'N-SK16', 'schott'],
           ['glass', 'N-F2', 'schott'], ['glass', 'N-SF5', 'schott'],
           ['glass', 'N-BAK4', 'schott'], ['glass', 'N-LASF9', 'schott'],
           # the same name from several vendors (distinct data files)
           ['glass', 'F2', 'hikari'], ['glass', 'F2', 'cdgm'],
           ['glass', 'SF4', 'schott'], ['glass', 'SF4', 'hikari'],
           ['glass', 'K5', 'hikari']]

ALL_FEATURES = ['conic', 'asphere', 'poly', 'cheby', 'tilt', 'decenter',
                'mirror', 'glass', 'abbe', 'absorb', 'finite_obj', 'vignette',
                'coat_simple', 'coat_fresnel', 'polarized', 'aperture',
                'bsdf', 'multi_wl', 'units', 'fno', 'na', 'obj_height',
                'int_coeffs', 'glass_str', 'planes', 'stop_any', 'telecentric',
                'shared_material', 'glass_window', 'nested_cs',
                'int_lengths']


def pick_features(ch, allowed=None, p=0.3):
    allowed = ALL_FEATURES if allowed is None else allowed
    return set(ch.subset(allowed, p, tag='features'))


WINDOW_GLASSES = ['F2', 'K5', 'SK16', 'LAK9']


def _medium(ch, feats):
    if 'glass_window' in feats and ch.chance(0.6):
        # same name, no reference, different wavelength windows: the
        # catalogue search may resolve them to different data files
        win = ch.pick([{}, {'max_wavelength': 2.4}, {'min_wavelength': 0.4},
                       {'min_wavelength': 0.35, 'max_wavelength': 2.3}],
                      tag='window')
        # few distinct names per lens, so that the same name meets itself
        # with another window
        names = WINDOW_GLASSES[:1 + ch.randint(0, 1)] if ch.chance(0.7) \
            else WINDOW_GLASSES
        return ['glass', ch.pick(names, tag='wglass'), None, win]
    opts = [('ideal', 3)]
    if 'glass' in feats:
        opts.append(('glass', 3))
    if 'abbe' in feats:
        opts.append(('abbe', 1))
    if 'glass_str' in feats:
        opts.append(('glass_str', 1))
    kind = ch.weighted(opts, tag='medium')
    if kind == 'ideal':
        n = ch.rounded(ch.uniform(1.4, 1.9), 5)
        k = 0
        if 'absorb' in feats and ch.chance(0.4):
            k = ch.rounded(ch.loguniform(1e-8, 1e-6), 3)
        return ['ideal', n, k]
    if kind == 'glass':
        if ch.chance(0.3):
            # one name, several vendors, in the same lens
            return list(ch.pick([g for g in GLASSES if g[1] in
                                 ('F2', 'SF4')], tag='glass2'))
        return list(ch.pick(GLASSES, tag='glass'))
    if kind == 'glass_str':
        g = ch.pick([g_ for g_ in GLASSES if g_[1] in ('F2', 'SF4')]
                    if ch.chance(0.5) else GLASSES, tag='glass')
        if ch.chance(0.5):
            return ['glass_tuple', g[1], g[2]]
        return ['glass_str', g[1]]
    return ['abbe', ch.rounded(ch.uniform(1.45, 1.85), 5),
            ch.rounded(ch.uniform(25, 70), 4)]


def _radius(ch, lo=15.0, hi=400.0):
    r = ch.rounded(ch.loguniform(lo, hi), 5)
    return r if ch.chance(0.5) else -r


def gen_lens(ch, feats, nsurf=None, harsh=False, max_surf=12):
    """Returns (build_ops, meta).  nsurf = number of surfaces between object
    and image (1..max_surf)."""
    if nsurf is None:
        nsurf = ch.weighted([(1, 1), (2, 4), (3, 3), (4, 4), (5, 2), (6, 3),
                             (7, 1), (8, 1), (9, 1), (10, 1), (11, 0.5),
                             (12, 0.5)], tag='nsurf')
    nsurf = min(nsurf, max_surf)
    ops = []
    if 'telecentric' in feats:
        # object-space telecentricity needs a finite object, an objectNA
        # aperture and object-height fields
        feats = set(feats) | {'finite_obj', 'na', 'obj_height'}
    finite_obj = 'finite_obj' in feats
    epd = ch.rounded(ch.uniform(1.0, 8.0) if not harsh
                     else ch.uniform(8.0, 25.0), 4)
    # ---- object
    t0 = ch.rounded(ch.uniform(30, 400), 5) if finite_obj else INF
    ops.append({'op': 'add_surface', 'index': 0, 'radius': INF,
                'thickness': t0})
    # ---- surfaces
    stop_at = ch.randint(1, nsurf, tag='stop_at') if 'stop_any' in feats \
        else ch.weighted([(1, 3), (max(1, nsurf // 2), 2), (nsurf, 1)],
                         tag='stop_at')
    in_glass = False
    mirrors_left = 2 if 'mirror' in feats else 0
    direction = 1.0
    lo_r = 6.0 if harsh else 15.0
    for k in range(1, nsurf + 1):
        op = {'op': 'add_surface', 'index': k}
        last = (k == nsurf)
        # --- what kind of surface
        kind = 'standard'
        opts = [('standard', 6)]
        if 'asphere' in feats:
            opts.append(('even_asphere', 2))
        if 'poly' in feats:
            opts.append(('polynomial', 1.5))
        if 'cheby' in feats:
            opts.append(('chebyshev', 1.5))
        kind = ch.weighted(opts, tag='stype')
        op['stype'] = kind
        plane = kind == 'standard' and ch.chance(0.3 if 'planes' in feats
                                                 else 0.1)
        if plane:
            op['radius'] = INF
        else:
            op['radius'] = _radius(ch, lo_r, 400.0)
            if 'conic' in feats and ch.chance(0.5):
                op['conic'] = ch.rounded(ch.uniform(-2.0, 0.6), 4) \
                    if ch.chance(0.75) else ch.pick([-1, -1.0, 0, 0.0],
                                                    tag='conicpal')
        if kind == 'even_asphere':
            nc = ch.randint(1, 3, tag='ncoef') if ch.chance(0.8) else \
                ch.randint(4, 6, tag='ncoef')    # high orders: tiny values
            if 'int_coeffs' in feats and ch.chance(0.3):
                op['coefficients'] = [0] * nc
            else:
                op['coefficients'] = [
                    ch.rounded(ch.uniform(-1, 1) * 10.0 ** (-5 - 2 * i), 4)
                    for i in range(nc)]
        elif kind in ('polynomial', 'chebyshev'):
            ni, nj = ch.randint(1, 3, tag='ni'), ch.randint(1, 3, tag='nj')
            if 'int_coeffs' in feats and ch.chance(0.3):
                op['coefficients'] = [[0] * nj for _ in range(ni)]
            else:
                op['coefficients'] = [
                    [0.0 if (i + j) < 2 else
                     ch.rounded(ch.uniform(-1, 1) * 10.0 ** (-3 - (i + j)), 4)
                     for j in range(nj)] for i in range(ni)]
            if kind == 'chebyshev':
                op['norm_x'] = ch.rounded(ch.uniform(20, 60), 3)
                op['norm_y'] = ch.rounded(ch.uniform(20, 60), 3)
                if ch.chance(0.3):
                    # a normalisation box that only just holds the beam
                    op['norm_x'] = op['norm_y'] = ch.rounded(
                        epd * ch.uniform(0.55, 0.9), 3)
            if ch.chance(0.5):
                op['tol'] = ch.pick([1e-6, 1e-8, 1e-10, 1e-12], tag='tol')
            if ch.chance(0.3):
                op['max_iter'] = ch.pick([20, 50, 100], tag='max_iter')
        # --- medium behind
        # front-surface mirrors and (less often) mirrors met inside glass
        is_mirror = (mirrors_left > 0 and not plane and kind == 'standard'
                     and not last
                     and ch.chance(0.2 if in_glass else 0.45))
        if is_mirror:
            op['material'] = ['mirror']
            mirrors_left -= 1
            direction = -direction
        elif in_glass:
            if ch.chance(0.7) or last:
                op['material'] = ['air']
                in_glass = False
            else:
                op['material'] = _medium(ch, feats)   # cemented
        else:
            if plane and ch.chance(0.5):
                op['material'] = ['air']              # dummy / stop plane
            elif ch.chance(0.8) and not last:
                prev = [o for o in ops if o.get('share')]
                if 'shared_material' in feats and prev and ch.chance(0.6):
                    # the same material *object* as an earlier element
                    op['material'] = list(prev[-1]['material'])
                    op['share'] = prev[-1]['share']
                else:
                    op['material'] = _medium(ch, feats)
                    if 'shared_material' in feats and \
                            op['material'][0] in ('ideal', 'glass', 'abbe'):
                        op['share'] = f'g{k}'
                in_glass = True
            else:
                op['material'] = ['air']
        # --- thickness to the next surface
        if last:
            t = ch.uniform(15, 120)
        elif in_glass:
            t = ch.uniform(1.0, 8.0)
        else:
            t = ch.uniform(0.2, 25.0)
        op['thickness'] = ch.rounded(direction * t, 5)
        if k == stop_at:
            op['stop'] = True
        # --- decorations
        if 'tilt' in feats and ch.chance(0.3):
            op[ch.pick(['rx', 'ry'], tag='tiltax')] = ch.rounded(
                ch.uniform(-0.05, 0.05), 3)
        if 'decenter' in feats and ch.chance(0.3):
            op[ch.pick(['dx', 'dy'], tag='decax')] = ch.rounded(
                ch.uniform(-0.5, 0.5), 3)
        if 'aperture' in feats and ch.chance(0.35):
            rmax = ch.rounded(ch.uniform(0.8, 3.0) * epd, 4)
            rmin = ch.rounded(ch.uniform(0.0, 0.2) * epd, 3) \
                if ch.chance(0.3) else 0
            op['aperture'] = [rmax, rmin]
            prev = [o['aperture'] for o in ops if o.get('aperture')]
            if prev and ch.chance(0.4):
                # the same clear aperture as an earlier surface (both faces
                # of one element), as a separate aperture object
                op['aperture'] = list(prev[-1])
        if 'coat_simple' in feats and ch.chance(0.4):
            tr = ch.rounded(ch.uniform(0.5, 1.0), 3)
            op['coating'] = ['simple', tr,
                             ch.rounded(ch.uniform(0, 1 - tr), 3)]
        elif 'coat_fresnel' in feats and ch.chance(0.6) and not is_mirror:
            op['coating'] = 'fresnel'
        if 'bsdf' in feats and not any('bsdf' in o for o in ops) and \
                (ch.chance(0.4) or last):
            op['bsdf'] = ['lambertian'] if ch.chance(0.4) else \
                ['gaussian', ch.rounded(ch.uniform(0.001, 0.05), 3)]
        ops.append(op)
    if 'nested_cs' in feats:
        # one surface handed over as a ready-made object whose coordinate
        # system hangs off a rotated / shifted parent system
        cands = [o for o in ops[2:] if o.get('stype') == 'standard'
                 and 'coating' not in o and 'bsdf' not in o]
        if cands:
            o = ch.pick(cands, tag='nested')
            o['via_object'] = {'parent': {
                'x': ch.rounded(ch.uniform(-0.2, 0.2), 3),
                'y': ch.rounded(ch.uniform(-0.2, 0.2), 3),
                'rx': ch.rounded(ch.uniform(-0.03, 0.03), 3),
                'ry': ch.rounded(ch.uniform(-0.03, 0.03), 3),
                'rz': ch.rounded(ch.uniform(-0.5, 0.5), 3)}}
            o['via_object']['gap'] = ops[ops.index(o) - 1]['thickness']
            o.setdefault('rx', ch.rounded(ch.uniform(-0.02, 0.02), 3))
            o.setdefault('ry', ch.rounded(ch.uniform(-0.02, 0.02), 3))
    # ---- image
    img = {'op': 'add_surface', 'index': nsurf + 1}
    if 'aperture' in feats and ch.chance(0.25):
        # detector outline / field stop on the image surface
        img['aperture'] = [ch.rounded(ch.uniform(0.5, 4.0) * epd, 4), 0]
    ops.append(img)
    # ---- aperture
    if 'na' in feats and finite_obj:
        ops.append({'op': 'set_aperture', 'type': 'objectNA',
                    'value': ch.rounded(ch.uniform(0.005, 0.05), 3)})
    elif 'fno' in feats:
        ops.append({'op': 'set_aperture', 'type': 'imageFNO',
                    'value': ch.rounded(ch.uniform(4.0, 16.0), 3)})
    else:
        ops.append({'op': 'set_aperture', 'type': 'EPD', 'value': epd})
    # ---- fields
    if 'obj_height' in feats and finite_obj:
        ops.append({'op': 'set_field_type', 'type': 'object_height'})
        fmax = ch.rounded(ch.uniform(0.5, 5.0), 3)
    else:
        ops.append({'op': 'set_field_type', 'type': 'angle'})
        fmax = ch.rounded(ch.uniform(0.5, 8.0 if not harsh else 25.0), 3)
    ftype_op = ops.pop()        # placed according to the drawn order below
    nf = ch.randint(1, 3, tag='nfields')
    ys = [0.0, fmax, ch.rounded(0.7 * fmax, 3)][:nf]
    if nf == 1 and ch.chance(0.5):
        ys = [fmax]
    fops = []
    for y in ys:
        fo = {'op': 'add_field', 'y': y}
        if 'vignette' in feats and y != 0.0 and ch.chance(0.7):
            fo['vx'] = ch.rounded(ch.uniform(0.0, 0.3), 3)
            fo['vy'] = ch.rounded(ch.uniform(0.0, 0.3), 3)
        fops.append(fo)
    order = ch.weighted([('type_first', 6), ('fields_first', 2),
                         ('switched', 1)], tag='forder')
    if order == 'type_first':
        ops += [ftype_op] + fops
    elif order == 'fields_first':
        ops += fops + [ftype_op]
    else:
        other = 'object_height' if ftype_op['type'] == 'angle' else 'angle'
        ops += [{'op': 'set_field_type', 'type': other}] + fops + [ftype_op]
    # ---- wavelengths
    nw = ch.randint(2, 3, tag='nwl') if 'multi_wl' in feats else 1
    wls = [0.5875618, 0.4861327, 0.6562725][:nw]
    prim = ch.randint(0, nw - 1, tag='prim')
    for i, w in enumerate(wls):
        wo = {'op': 'add_wavelength', 'value': w, 'primary': i == prim}
        if 'units' in feats and ch.chance(0.5):
            unit = ch.pick(['nm', 'mm', 'um'], tag='unit')
            wo['unit'] = unit
            wo['value'] = {'nm': w * 1000, 'mm': w / 1000, 'um': w}[unit]
        ops.append(wo)
    # ---- polarization (required when a Fresnel coating is present)
    uses_fresnel = any(o.get('coating') == 'fresnel' for o in ops)
    if uses_fresnel or 'polarized' in feats:
        if ch.chance(0.5):
            st = {'is_polarized': False}
        else:
            st = {'is_polarized': True,
                  'Ex': ch.rounded(ch.uniform(0.1, 1), 3),
                  'Ey': ch.rounded(ch.uniform(0.1, 1), 3),
                  'phase_x': ch.rounded(ch.uniform(0, 3), 3),
                  'phase_y': ch.rounded(ch.uniform(0, 3), 3)}
        ops.append({'op': 'set_polarization', 'state': st})
    if 'telecentric' in feats:
        ops.append({'op': 'set_telecentric', 'value': True})
    if 'int_lengths' in feats:
        # every length of the prescription a whole-numbered Python int, no
        # decentres (legitimate input; numpy then builds integer arrays)
        for o in ops:
            if o.get('op') != 'add_surface':
                continue
            t = o.get('thickness', 0)
            if isinstance(t, float) and math.isfinite(t):
                o['thickness'] = int(round(t)) or (1 if t > 0 else -1)
            o.pop('dx', None)
            o.pop('dy', None)
            if 'via_object' in o:
                o['via_object']['gap'] = 0
                o.pop('via_object')
    meta = {'nsurf': nsurf, 'finite_obj': finite_obj, 'epd': epd,
            'features': sorted(feats)}
    return ops, meta


def gen_sample(ch):
    mod, name = ch.pick(SAMPLES, tag='sample')
    return [{'op': 'sample', 'module': mod, 'name': name}], \
        {'sample': name}
