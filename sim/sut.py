"""Adapter between recorded operations (plain JSON) and the real optiland API.

Everything here calls the *public* API of the lens only.  Material objects
are created fresh for every lens (never shared between twins unless the
caller passes a cache explicitly).
"""
import contextlib
import io
import math
import os
import sys

import numpy as np

INF = float('inf')


@contextlib.contextmanager
def quiet():
    """optiland prints warnings to stdout (material lookup, Variable kwargs);
    keep the check's stdout clean."""
    old = sys.stdout
    sys.stdout = io.StringIO()
    try:
        yield
    finally:
        sys.stdout = old


def mk_material(desc):
    """desc: ['air'] | ['mirror'] | ['ideal', n, k] | ['glass', name, ref] |
    ['abbe', n, V].  Returns what add_surface accepts as `material`."""
    from optiland.materials import IdealMaterial, Material, AbbeMaterial
    kind = desc[0]
    if kind == 'air':
        return 'air'
    if kind == 'mirror':
        return 'mirror'
    if kind == 'ideal':
        return IdealMaterial(n=desc[1], k=desc[2] if len(desc) > 2 else 0)
    if kind == 'glass':
        win = desc[3] if len(desc) > 3 and desc[3] else {}
        with quiet():
            return Material(desc[1], desc[2], **win)
    if kind == 'glass_tuple':
        return (desc[1], desc[2])
    if kind == 'glass_str':
        return desc[1]
    if kind == 'abbe':
        return AbbeMaterial(desc[1], desc[2])
    raise ValueError(desc)


def ref_index(desc, w, prev=None):
    """Index of the medium described by desc at wavelength w, computed from a
    fresh material object (reference side).  'mirror' -> medium in front."""
    kind = desc[0]
    if kind == 'air':
        return 1.0
    if kind == 'mirror':
        return prev
    if kind == 'ideal':
        return desc[1]
    if kind == 'glass':
        m = mk_material(desc)
    else:
        m = mk_material(['glass', desc[1],
                         desc[2] if len(desc) > 2 else None]
                        if kind.startswith('glass') else desc)
    return m.n(w)


def mk_coating(desc):
    from optiland.coatings import SimpleCoating
    if desc is None:
        return None
    if desc == 'fresnel':
        return 'fresnel'
    if desc[0] == 'simple':
        return SimpleCoating(transmittance=desc[1], reflectance=desc[2])
    raise ValueError(desc)


def mk_bsdf(desc):
    from optiland.scatter import LambertianBSDF, GaussianBSDF
    if desc is None:
        return None
    if desc[0] == 'lambertian':
        return LambertianBSDF()
    if desc[0] == 'gaussian':
        return GaussianBSDF(sigma=desc[1])
    raise ValueError(desc)


def mk_aperture(desc):
    from optiland.physical_apertures import RadialAperture
    if desc is None:
        return None
    return RadialAperture(r_max=desc[0], r_min=desc[1])


def surface_kwargs(op, cache=None):
    """cache: per-lens dict; surfaces whose op carries the same 'share' tag
    get the very same material object (as a user reusing one `glass`
    variable for several elements does)."""
    kw = {}
    st = op.get('stype', 'standard')
    kw['surface_type'] = st
    kw['index'] = op['index']
    if 'radius' in op:
        kw['radius'] = op['radius']
        if op.get('np0d') and isinstance(op['radius'], (int, float)) and \
                math.isfinite(op['radius']):
            # a 0-d numpy array, as comes out of a numpy computation of the
            # prescription (legitimate input; in-place arithmetic on it
            # anywhere is visible to everyone who shares it)
            kw['radius'] = np.asarray(float(op['radius']))
    if 'conic' in op:
        kw['conic'] = op['conic']
    if 'thickness' in op:
        kw['thickness'] = op['thickness']
    kw['is_stop'] = bool(op.get('stop', False))
    tag = op.get('share')
    if tag is not None and cache is not None:
        if tag not in cache:
            cache[tag] = mk_material(op.get('material', ['air']))
        kw['material'] = cache[tag]
    else:
        kw['material'] = mk_material(op.get('material', ['air']))
    for k in ('dx', 'dy', 'rx', 'ry', 'tol', 'max_iter', 'norm_x', 'norm_y'):
        if k in op:
            kw[k] = op[k]
    if 'coefficients' in op:
        # a fresh list per call: the caller keeps nothing
        kw['coefficients'] = [list(r) if isinstance(r, list) else r
                              for r in op['coefficients']]
    if op.get('aperture') is not None:
        kw['aperture'] = mk_aperture(op['aperture'])
    if op.get('coating') is not None:
        kw['coating'] = mk_coating(op['coating'])
    if op.get('bsdf') is not None:
        kw['bsdf'] = mk_bsdf(op['bsdf'])
    return kw


def apply_build(optic, op, cache=None):
    """Apply one build operation through the public API."""
    o = op['op']
    if o == 'add_surface' and op.get('via_object') and op['index'] >= 2 \
            and optic.surface_group.num_surfaces >= 2:
        add_surface_object(optic, op, cache)
    elif o == 'add_surface':
        optic.add_surface(**surface_kwargs(op, cache))
    elif o == 'set_aperture':
        optic.set_aperture(aperture_type=op['type'], value=op['value'])
    elif o == 'set_field_type':
        optic.set_field_type(field_type=op['type'])
    elif o == 'add_field':
        optic.add_field(y=op['y'], x=op.get('x', 0.0), vx=op.get('vx', 0.0),
                        vy=op.get('vy', 0.0))
    elif o == 'add_wavelength':
        optic.add_wavelength(value=op['value'],
                             is_primary=bool(op.get('primary', False)),
                             unit=op.get('unit', 'um'))
    elif o == 'set_polarization':
        from optiland.rays import PolarizationState
        if op['state'] == 'ignore':
            optic.set_polarization('ignore')
        else:
            s = op['state']
            optic.set_polarization(PolarizationState(
                is_polarized=s['is_polarized'], Ex=s.get('Ex'),
                Ey=s.get('Ey'), phase_x=s.get('phase_x'),
                phase_y=s.get('phase_y')))
    elif o == 'set_telecentric':
        optic.obj_space_telecentric = bool(op['value'])
    elif o == 'sample':
        raise ValueError('sample lenses are built by new_lens')
    else:
        raise ValueError(f'unknown build op {o}')


def add_surface_object(optic, op, cache=None):
    """add_surface(new_surface=...): a ready-made Surface whose coordinate
    system refers to a parent system (the only public route to nested
    coordinate systems)."""
    from optiland.coordinate_system import CoordinateSystem
    from optiland.geometries import Plane, StandardGeometry
    from optiland.materials import IdealMaterial, Material
    from optiland.surfaces.standard_surface import Surface
    kw = surface_kwargs(op, cache)
    k = kw['index']
    sg = optic.surface_group
    prev = sg.surfaces[k - 1]
    # local z = vertex of the previous surface + the gap given for it
    z = f(sg.positions[k - 1]) + op['via_object'].get('gap', 0.0)
    # without a 'parent' entry: a ready-made surface in the lens's own frame
    parent = CoordinateSystem(**op['via_object']['parent']) \
        if op['via_object'].get('parent') else None
    cs = CoordinateSystem(x=kw.get('dx', 0), y=kw.get('dy', 0), z=z,
                          rx=kw.get('rx', 0), ry=kw.get('ry', 0),
                          reference_cs=parent)
    radius = kw.get('radius', INF)
    geom = Plane(cs) if math.isinf(radius) else \
        StandardGeometry(cs, radius, kw.get('conic', 0))
    mat = kw['material']
    pre = prev.material_post
    if mat == 'air':
        post = IdealMaterial(n=1.0, k=0.0)
    elif mat == 'mirror':
        post = pre
    elif isinstance(mat, str):
        post = Material(mat)
    elif isinstance(mat, tuple):
        post = Material(mat[0], mat[1])
    else:
        post = mat
    surf = Surface(geom, pre, post, is_stop=kw['is_stop'],
                   aperture=kw.get('aperture'),
                   is_reflective=(mat == 'mirror'))
    optic.add_surface(new_surface=surf, index=k,
                      thickness=kw.get('thickness', 0))


SAMPLES = [
    ('eyepieces', 'EyepieceErfle'), ('infrared', 'InfraredTriplet'),
    ('infrared', 'InfraredTripletF4'), ('lithography', 'UVProjectionLens'),
    ('microscopes', 'Objective60x'), ('microscopes', 'Microscope20x'),
    ('microscopes', 'UVReflectingMicroscope'),
    ('objectives', 'TripletTelescopeObjective'),
    ('objectives', 'CookeTriplet'), ('objectives', 'DoubleGauss'),
    ('objectives', 'ReverseTelephoto'),
    ('objectives', 'ObjectiveUS008879901'),
    ('objectives', 'TelescopeObjective48Inch'), ('objectives', 'HeliarLens'),
    ('objectives', 'TessarLens'), ('objectives', 'LensWithFieldCorrector'),
    ('objectives', 'PetzvalLens'), ('objectives', 'Telephoto'),
    ('simple', 'Edmund_49_847'), ('simple', 'SingletStopSurf2'),
    ('simple', 'TelescopeDoublet'), ('simple', 'CementedAchromat'),
    ('simple', 'AsphericSinglet'), ('telescopes', 'HubbleTelescope'),
]


def new_lens(build_ops, share=True):
    """A fresh Optic built from recorded build operations (public API, index
    order).  A single {'op': 'sample', 'module', 'name'} op builds one of the
    bundled sample lenses instead.  share=False gives every surface its own
    material object even where the operations ask for a shared one (an equal
    prescription with no aliasing: the reference side of a comparison)."""
    from optiland.optic import Optic
    import importlib
    cache = {} if share else None
    with quiet():
        if build_ops and build_ops[0]['op'] == 'sample':
            mod = importlib.import_module('optiland.samples.' +
                                          build_ops[0]['module'])
            lens = getattr(mod, build_ops[0]['name'])()
            rest = build_ops[1:]
        else:
            lens = Optic()
            rest = build_ops
        for op in rest:
            apply_build(lens, op, cache)
    return lens


def f(x):
    """python float of a numpy scalar / 0-d / 1-element array."""
    return float(np.asarray(x).reshape(-1)[0])


def finite(x):
    return isinstance(x, (int, float)) and math.isfinite(x)


def setup_env():
    os.environ.setdefault('MPLBACKEND', 'Agg')
