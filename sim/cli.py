"""Command line of ./check."""
import argparse
import importlib
import json
import os
import sys
import time

from sim import runner, evidence

# property -> (engine, tiers)
CHECKS = {
    'C01': {'engine': 'history',
            'quick': {'runs': 6000, 'len_range': (8, 40)},
            'thorough': {'runs': 120000, 'len_range': (10, 60)}},
    'C07': {'engine': 'history',
            'quick': {'runs': 4000, 'len_range': (6, 30)},
            'thorough': {'runs': 100000, 'len_range': (8, 50)}},
    'C19': {'engine': 'history',
            'quick': {'runs': 3000, 'len_range': (6, 30)},
            'thorough': {'runs': 40000, 'len_range': (8, 50)}},
    'C13': {'engine': 'interleave',
            'quick': {'runs': 1500, 'max_clients': 5, 'max_steps': 30},
            'thorough': {'runs': 30000, 'max_clients': 6, 'max_steps': 40}},
    'C14': {'engine': 'optsim',
            'quick': {'runs': 2500, 'max_vars': 4, 'max_hist': 6},
            'thorough': {'runs': 25000, 'max_vars': 5, 'max_hist': 9}},
    'C15': {'engine': 'tolsim',
            'quick': {'runs': 1500, 'max_pert': 4, 'max_steps': 3,
                      'max_n': 4, 'run_timeout': 600},
            # the longest programs (real least squares / L-BFGS-B on an
            # operand that deep-copies the lens, 40 compensations) take two
            # minutes on a loaded machine: the per-run alarm is a safety
            # net, not a verdict
            'thorough': {'runs': 25000, 'max_pert': 5, 'max_steps': 5,
                         'max_n': 8, 'run_timeout': 900}},
}


def main(argv):
    ap = argparse.ArgumentParser()
    ap.add_argument('prop')
    ap.add_argument('--tier', default=os.environ.get('VERIF_TIER', 'quick'))
    ap.add_argument('--replay')
    ap.add_argument('--runs', type=int)
    ap.add_argument('--workers', type=int,
                    default=int(os.environ.get('VERIF_WORKERS', '0')) or
                    min(16, os.cpu_count() or 1))
    ap.add_argument('--seed', type=int,
                    default=int(os.environ.get('VERIF_SEED', '0')))
    ap.add_argument('--json', action='store_true')
    ap.add_argument('--budget', type=float)
    ap.add_argument('--first', type=int, default=0)
    ap.add_argument('--dump-digests',
                    help='write per-run event-log digests to this file and '
                         'do nothing else (determinism self-test)')
    a = ap.parse_args(argv)
    prop = a.prop
    # numpy RuntimeWarnings from deliberately nasty lenses are not findings
    import warnings
    warnings.filterwarnings('ignore')
    import optiland
    if a.replay:
        doc, res = runner.replay_file(a.replay)
        v = res.get('violation')
        out = {'violation': v, 'digest': res.get('digest')}
        if a.json:
            print(json.dumps(out, default=runner._json_default))
        else:
            print(f'replay of {a.replay} (property {doc["property"]}, '
                  f'engine {doc["engine"]}, optiland at '
                  f'{os.path.dirname(optiland.__file__)})')
            if v:
                print(f'  class={v["class"]} signature={v["signature"]} '
                      f'step={v["step"]}\n  {v["detail"]}')
                print(f'VIOLATION property={doc["property"]} '
                      f'replay={a.replay}')
            else:
                print('  no violation reproduced')
        return 1 if v else 0
    if prop not in CHECKS:
        print(f'no check for {prop}')
        return 2
    spec = CHECKS[prop]
    tier = a.tier if a.tier in ('quick', 'thorough') else 'quick'
    cfg = dict(spec[tier])
    nruns = a.runs or cfg.pop('runs')
    cfg.pop('runs', None)
    cfg['tier'] = tier
    budget = a.budget or cfg.pop('budget', None)
    eng = spec['engine']
    if a.dump_digests:
        results, _ = runner.run_batch(eng, prop, a.seed, cfg, nruns,
                                      a.workers, None, a.first)
        rows = [[r['run'], r.get('digest'), r.get('step_digests'),
                 (r.get('violation') or {}).get('signature'),
                 bool(r.get('error'))] for r in results]
        with open(a.dump_digests, 'w') as f:
            json.dump(rows, f)
        print(f'{prop}: {len(rows)} digests -> {a.dump_digests}')
        return 0

    def ev(results, wall, truncated, nviol, known_hit):
        return evidence.build(prop, eng, tier, a.seed, results, wall,
                              truncated, nviol, known_hit, a.workers)
    return runner.check_main(eng, prop, tier, a.seed, cfg, nruns, a.workers,
                             budget, ev, first_index=a.first)
