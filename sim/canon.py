"""Canonical (value-wise) forms and digests.

canon(obj): nested python structure where numpy scalars / 0-d / 1-element
arrays become python floats, arrays become lists, NaN is kept (compared
NaN-aware by `same`).  Objects that are not plain data are rendered as
('<obj>', class name) so that two dicts containing equal-typed opaque objects
compare equal only if the rest does; `find_opaque` lists them.
"""
import hashlib
import math
import struct
import numpy as np


def canon(o, squeeze1=True):
    if isinstance(o, dict):
        return {str(k): canon(v, squeeze1) for k, v in o.items()}
    if isinstance(o, (list, tuple)):
        return [canon(v, squeeze1) for v in o]
    if isinstance(o, np.ndarray):
        if squeeze1 and o.size == 1:
            return canon(o.reshape(-1)[0], squeeze1)
        return [canon(v, squeeze1) for v in o.tolist()]
    if isinstance(o, (bool, np.bool_)):
        return bool(o)
    if isinstance(o, (int, np.integer)):
        return int(o)
    if isinstance(o, (float, np.floating)):
        return float(o)
    if o is None or isinstance(o, str):
        return o
    return ['<obj>', type(o).__name__]


def find_opaque(o, path=''):
    """Paths of values that are not JSON-representable plain data."""
    out = []
    if isinstance(o, dict):
        for k, v in o.items():
            out += find_opaque(v, f'{path}/{k}')
    elif isinstance(o, (list, tuple)):
        for i, v in enumerate(o):
            out += find_opaque(v, f'{path}/{i}')
    elif isinstance(o, np.ndarray):
        out.append((path, 'ndarray'))
    elif isinstance(o, (np.floating, np.integer, np.bool_)):
        out.append((path, type(o).__name__))
    elif o is None or isinstance(o, (str, bool, int, float)):
        pass
    else:
        out.append((path, type(o).__name__))
    return out


def same(a, b, rtol=0.0, atol=0.0):
    """NaN-aware structural comparison.  Returns (ok, path_of_first_diff)."""
    return _same(a, b, rtol, atol, '')


def _num(x):
    return isinstance(x, (int, float)) and not isinstance(x, bool)


def _same(a, b, rtol, atol, path):
    if _num(a) and _num(b):
        fa, fb = float(a), float(b)
        if math.isnan(fa) and math.isnan(fb):
            return True, None
        if fa == fb:
            return True, None
        if math.isfinite(fa) and math.isfinite(fb):
            if abs(fa - fb) <= atol + rtol * max(abs(fa), abs(fb)):
                return True, None
        return False, f'{path}: {a!r} != {b!r}'
    if type(a) is not type(b):
        return False, f'{path}: type {type(a).__name__} != {type(b).__name__}'
    if isinstance(a, dict):
        if set(a) != set(b):
            return False, f'{path}: keys {sorted(set(a) ^ set(b))}'
        for k in a:
            ok, p = _same(a[k], b[k], rtol, atol, f'{path}/{k}')
            if not ok:
                return ok, p
        return True, None
    if isinstance(a, list):
        if len(a) != len(b):
            return False, f'{path}: len {len(a)} != {len(b)}'
        for i, (x, y) in enumerate(zip(a, b)):
            ok, p = _same(x, y, rtol, atol, f'{path}/{i}')
            if not ok:
                return ok, p
        return True, None
    if a == b:
        return True, None
    return False, f'{path}: {a!r} != {b!r}'


def _feed(h, o):
    if isinstance(o, dict):
        h.update(b'{')
        for k in sorted(o):
            h.update(str(k).encode())
            _feed(h, o[k])
        h.update(b'}')
    elif isinstance(o, (list, tuple)):
        h.update(b'[')
        for v in o:
            _feed(h, v)
        h.update(b']')
    elif isinstance(o, np.ndarray):
        h.update(b'A')
        h.update(str(o.shape).encode())
        a = np.ascontiguousarray(o)
        if a.dtype.kind == 'f':
            a = np.where(np.isnan(a), np.nan, a)  # one NaN payload
        h.update(a.tobytes())
    elif isinstance(o, (bool, np.bool_)):
        h.update(b'T' if o else b'F')
    elif isinstance(o, (int, np.integer)):
        h.update(b'i' + str(int(o)).encode())
    elif isinstance(o, (float, np.floating)):
        f = float(o)
        if math.isnan(f):
            h.update(b'nan')
        else:
            h.update(struct.pack('<d', f))
    elif o is None:
        h.update(b'N')
    elif isinstance(o, str):
        h.update(b's' + o.encode())
    elif isinstance(o, bytes):
        h.update(b'b' + o)
    else:
        h.update(b'O' + type(o).__name__.encode())


def digest(o, n=16):
    h = hashlib.blake2b(digest_size=16)
    _feed(h, o)
    return h.hexdigest()[:n]


class RunningDigest:
    def __init__(self):
        self.h = hashlib.blake2b(digest_size=16)
        self.steps = []

    def add(self, o):
        _feed(self.h, o)
        d = self.h.hexdigest()[:12]
        self.steps.append(d)
        return d

    def hex(self):
        return self.h.hexdigest()
