"""Evidence file builder (schema: /root/.vp/EVIDENCE.schema.json)."""
from sim import runner

COMPONENTS = {
    'history': {
        'real': ['optiland.Optic and everything below it (surfaces, '
                 'geometries, materials, pickups, solves, variables, '
                 'serialisers)', 'numpy / scipy as installed'],
        'stub': ['file system for save/load (in-memory SimFS bound to the '
                 'fileio module namespace: open, os.open / fdopen / write / '
                 'ftruncate / close / replace with real truncation semantics, '
                 'os.path.exists / getsize / getmtime, os.stat, os.remove, '
                 'with a simulated clock of one second per completed write; '
                 'no disk faults injected)'],
    },
    'interleave': {
        'real': ['optiland.Optic, tracing, paraxial / aberration queries, '
                 'wavefront / PSF / MTF, every analysis class, ray and '
                 'paraxial operands', 'numpy / scipy as installed'],
        'stub': ['the callers: scripted clients stepped by a seeded '
                 'scheduler at API-call granularity (no threads; the '
                 'property promises nothing about thread safety)'],
    },
    'optsim': {
        'real': ['optiland lens, variables (all nine types), operands, '
                 'OptimizationProblem, the five optimiser front ends, undo()',
                 'config R: scipy minimize / least_squares / dual_annealing '
                 '/ differential_evolution (seeded through rng=)'],
        'stub': ['config S: the optimiser driver (StubDriver: arbitrary '
                 'recorded evaluation order within the scipy contract)',
                 'multi-process worker pool of differential evolution '
                 '(SimPool: pickled copy per chunk, seeded chunk order, '
                 'duplicated tasks); a real multi-process run is not part of '
                 'the verdict'],
    },
    'tolsim': {
        'real': ['optiland Tolerancing, Perturbation, the three sampler '
                 'kinds, SensitivityAnalysis, MonteCarlo, '
                 'CompensatorOptimizer, variables, operands', 'numpy global '
                 'RNG (seeded by the samplers themselves)', 'scipy drivers '
                 'when the program uses the real configuration'],
        'stub': ['compensation driver in the stub configuration '
                 '(StubDriver)', 'operand fault wrapper registered through '
                 'operand_registry (NaN region as a pure function of the '
                 'lens state)'],
    },
}

ASSUMPTIONS = {
    'C01': [
        'valid-input domain: finite parameter values of python int/float '
        'type; set_index not on the image surface; set_conic / conic pickups '
        'only on curved surfaces; set_thickness(0) only with a finite object',
        'pickup sets are conflict-free (one pickup per target quantity, '
        'chains only in dependency order, a solve-controlled gap is neither '
        'source nor target) and '
        'solves are added in increasing surface order on surfaces >= 2 whose '
        'incoming marginal ray does not depend on the gap being solved '
        '(infinite object + EPD, objectNA, or EPD with the stop in front)',
        'positions compared to 1e-9 * (1 + largest |z| seen in the run); '
        'everything else exactly',
        'reference indices of catalogue glasses come from a fresh optiland '
        'Material built from the same name (C01 is about chaining, not '
        'catalogue correctness)',
        'image_solve is checked for success and for moving only the image '
        'surface (its height post-condition is not part of the statement)',
        'after insertion in the middle / removal only the stop and primary-'
        'wavelength clauses are checked',
        'injected faults: calls the library rejects (unknown surface type, '
        'glass, pickup attribute, solve / variable type, wavelength unit, '
        'aperture type, index beyond the end); a rejected call must leave '
        'the observable state - prescription, fields, wavelengths, number of '
        'pickups and solves - unchanged',
    ],
    'C13': [
        'the same numpy call on same-shaped input is bit-reproducible within '
        'one process (single-threaded BLAS/FFT forced by the check)',
        'unseeded random pupil sampling and lenses with scatter models are '
        'excluded, as the statement excludes them; RandomDistribution is '
        'used only with an explicit seed',
        'a call that raises identically in the interleaved run and alone is '
        'counted, not flagged (the oracle for raising calls is differential)',
        'batch independence: 1e-13 relative for closed-form surfaces, '
        '10 x the surface tolerance when an iterative surface is present',
        'no client edits the lens; pre-emption inside a call (threads) is '
        'not simulated',
    ],
    'C14': [
        'the problem is admissible: bounds contain the starting value, a '
        'quantity overwritten by a pickup or a solve is not also a variable, '
        'radius variables sit on curved surfaces, BFGS / CG (which ignore '
        'bounds) are only used without bounds',
        'stub driver contract: x0 (clipped into the bounds) evaluated first, '
        'every evaluation inside the bounds, best evaluated point returned '
        'with its value, at least one evaluation after the best one',
        'when real scipy hands back an (x, fun) pair in which fun is not the '
        'value it obtained at x (L-BFGS-B after a failed line search), the '
        '"reproduces the returned objective" and "not worse" clauses are '
        'skipped for that call; the state and bounds clauses are still '
        'checked',
        'values == result.x to 1e-11 relative (plus position round-off for '
        'thickness); objective reproduced to 1e-6 relative; not-worse up to '
        'the merit function\'s own round-off floor',
        'optimiser exceptions are not flagged (the statement is conditioned '
        'on "when any optimiser returns")',
    ],
    'C15': [
        'reference for a row: optiland\'s own Tolerancing on a lens rebuilt '
        'from the recorded build operations, reset(), recorded perturbation '
        'values written through fresh unscaled handles, '
        'apply_compensators(), evaluate()',
        'rows are compared bit-exactly when no thickness quantity is '
        'perturbed or compensated (all other quantities are written '
        'absolutely); with a thickness involved positions carry round-off '
        'of the edit history and rows are compared to 1e-7 relative; with a '
        'thickness AND a compensator the compensation is not re-run for '
        'the reference (its discrete decisions may flip on an ulp): the '
        'compensator values recorded in the row are applied instead',
        'a run() that raises is out of scope ("when the run completes")',
        'restore: prescription equal to the nominal snapshot to 1e-12 '
        'relative (scale / inverse-scale round trip of compensators) plus '
        'position round-off',
        'no two perturbations address the same quantity (their result '
        'columns would collide)',
    ],
    'C07': [
        'only the clause "the library\'s own system-scaling operation '
        'produces exactly that scaled lens" is decided; lens class: planes '
        'and conics, angular fields, no decentres, no aspheric coefficients',
        'model: radii, thicknesses, EPD value and physical aperture radii '
        'times s; everything else (fields, indices, conics, tilts) '
        'unchanged; radii compared exactly, positions to 1e-9 relative',
        'behaviour: after each scale_system the lens is traced against a '
        'twin built from scratch with the scaled prescription; tolerance = '
        '10 x the response of the twin to 1e-12 x lens-size jitter of every '
        'gap + 1e-6 relative; only for lenses of sane proportions (size, '
        'radii and focal length within 1e-4..1e6 of each other) and batches '
        'in which every ray survives',
    ],
}


def _compact(o, depth=0):
    """A recorded history as written to the replay file, long lists cut."""
    if isinstance(o, dict):
        return {k: _compact(v, depth + 1) for k, v in o.items()
                if k != 'shrinkable'}
    if isinstance(o, list):
        cut = 60 if depth <= 1 else 12
        out = [_compact(v, depth + 1) for v in o[:cut]]
        if len(o) > cut:
            out.append(f'... {len(o) - cut} more')
        return out
    return o


def build(prop, engine, tier, seed, results, wall, truncated, nviol,
          known_hit, workers):
    done = [r for r in results if not r.get('error')]
    agg = {}
    for r in done:
        runner.merge_counts(agg, r.get('stats', {}))
    pairs = set()
    shapes = set()
    for r in done:
        if r.get('nontrivial'):
            pairs.add((r.get('shape'), r.get('final')))
            shapes.add(r.get('shape'))
    samples = []
    for r in results[:3]:
        if r.get('history'):
            samples.append({'run': r['run'], 'run_seed': r['seed'],
                            'history': _compact(r['history'])})
    steps = agg.get('steps', 0)
    cov = {
        'evaluations': len(done),
        'distinct_nontrivial': len(pairs),
        'rule': 'one evaluation = one seeded history executed against the '
                'real code and checked after every step; counted as '
                'non-trivial if it made >= 3 state-changing steps and >= 1 '
                'oracle comparison that could have failed; distinct = '
                'distinct (operation-kind sequence hash, final observed-'
                'state digest) pairs',
        'samples': samples or [{'note': 'no history kept'}],
        'runs_per_hour': round(len(done) / max(wall, 1e-9) * 3600),
        'simulated_time': {'unit': 'logical steps (no clock on this path)',
                           'steps': steps},
        'operations_by_kind': agg.get('ops', {}),
        'operations_skipped_not_applicable': agg.get('skipped', {}),
        'oracle_comparisons': agg.get('oracle_checks', 0),
        'faults_fired_by_kind': agg.get('faults', {}) or
        {'none applicable': 0},
        'rare_branch_probes': {k: v for k, v in
                               agg.get('probes', {}).items()
                               if not k.startswith('foreign:')},
        'foreign_violations_seen': {k[8:]: v for k, v in
                                    agg.get('probes', {}).items()
                                    if k.startswith('foreign:')},
        'distinct_interleavings': len(shapes),
        'components': COMPONENTS.get(engine, {}),
        'slowest_run_s': round(max([r.get('wall', 0) for r in done] + [0]), 2),
        'harness_errors': len(results) - len(done),
        'truncated_by_wall_budget': truncated,
        'known_findings_hit': sorted(known_hit),
        'workers': workers,
    }
    return {'property_id': prop, 'tier': tier, 'seed': seed,
            'level': 'exploration', 'coverage': cov,
            'assumptions': ASSUMPTIONS.get(prop, []),
            'wall_s': round(wall, 2), 'violations': nviol}
