"""Simulated optimisation environment for C14 / C15.

optiland's front ends look the scipy drivers up as attributes of the
`scipy.optimize` module at call time (`optimize.minimize(...)`); that lookup
is the seam.  `patched(...)` rebinds the four entry points for the duration
of one optimise call and restores them afterwards.

Config S — StubDriver: honours the contract a caller may rely on and nothing
more: evaluates `fun` at x0 (clipped into the bounds) first, then at a
recorded sequence of points (inside the bounds when bounds are given),
including exact repeats and far points, and always evaluates at least one
point after the best one; returns an OptimizeResult whose x is the best
evaluated point and whose fun is the value there.

Config R — real scipy, made repeatable: `rng=` injected for the stochastic
drivers, and `workers=-1` replaced by SimPool.map: chunks of tasks, each chunk
evaluated on a pickle round-trip copy of the objective (what a child process
would see), chunks in a seeded order, results returned in submission order.
"""
import contextlib
import pickle
import random

import numpy as np
from scipy import optimize as _so
from scipy.optimize import OptimizeResult

REAL = {name: getattr(_so, name) for name in
        ('minimize', 'least_squares', 'dual_annealing',
         'differential_evolution')}


def _bounds_arrays(bounds, n, ls=False):
    lo = np.full(n, -np.inf)
    hi = np.full(n, np.inf)
    if bounds is None:
        return lo, hi
    if ls:
        lo = np.array(bounds[0], dtype=float)
        hi = np.array(bounds[1], dtype=float)
        return lo, hi
    for i, b in enumerate(bounds):
        if b is None:
            continue
        if b[0] is not None:
            lo[i] = b[0]
        if b[1] is not None:
            hi[i] = b[1]
    return lo, hi


class StubDriver:
    """plan: list of ['rel', [d0, d1, ...]] | ['repeat', k] | ['far', [...]]
    offsets are in units of `steps` (one characteristic step per variable)."""

    def __init__(self, plan, steps, stats=None):
        self.plan = plan
        self.steps = steps
        self.stats = stats if stats is not None else {}
        self.trace = []          # (x, f) in evaluation order
        self.success = True      # the contract promises neither value
        self.after_eval = None   # harness hook (e.g. watch the lens size)

    def _run(self, fun, x0, lo, hi):
        if x0 is None:
            # no starting point handed over (scipy's population-based
            # drivers then build their population without it): start from
            # the middle of the box
            x0 = np.where(np.isfinite(lo) & np.isfinite(hi),
                          0.5 * (lo + hi), 0.0)
            self.stats['stub_no_x0'] = self.stats.get('stub_no_x0', 0) + 1
        x0 = np.array(x0, dtype=float)
        n = len(x0)
        steps = np.array((list(self.steps) + [1e-3] * n)[:n], dtype=float)
        xs = []

        def ev(x):
            x = np.minimum(np.maximum(x, lo), hi)
            f = float(fun(x.copy()))
            xs.append((x.copy(), f))
            if self.after_eval is not None:
                self.after_eval()
            return f
        ev(x0)
        for kind, arg in self.plan:
            if kind == 'flag':
                self.success = arg != 'fail'
                continue
            if kind == 'repeat':
                ev(xs[arg % len(xs)][0])
                continue
            d = np.array((list(arg) + [0.0] * n)[:n], dtype=float)
            scale = 1.0 if kind == 'rel' else 1e3
            ev(x0 + d * steps * scale)
        fs = [f for _, f in xs]
        best = int(np.nanargmin(fs))
        if best == len(xs) - 1:
            # the contract never promises that the last evaluation is the
            # best one: always evaluate something after it
            ev(xs[best][0] + steps * 0.37)
            if xs[-1][1] < xs[best][1]:
                best = len(xs) - 1
                ev(xs[0][0])
        self.trace = xs
        self.stats['stub_evals'] = self.stats.get('stub_evals', 0) + len(xs)
        if best != 0:
            self.stats['stub_improved'] = \
                self.stats.get('stub_improved', 0) + 1
        self.stats['stub_last_not_best'] = \
            self.stats.get('stub_last_not_best', 0) + 1
        if any(f >= 1e10 for f in fs):
            self.stats['stub_nan_objective'] = \
                self.stats.get('stub_nan_objective', 0) + 1
        return xs[best][0], xs[best][1], len(xs)

    def consistent(self, x, f):
        return True

    def minimize(self, fun, x0, method=None, bounds=None, options=None,
                 tol=None, **kw):
        lo, hi = _bounds_arrays(bounds, len(x0))
        x, f, nfev = self._run(fun, x0, lo, hi)
        return OptimizeResult(x=x, fun=f, success=self.success, nfev=nfev,
                              nit=nfev, status=0 if self.success else 2,
                              message='stub driver')

    def least_squares(self, fun, x0, bounds=(-np.inf, np.inf), **kw):
        n = len(x0)
        lo = np.broadcast_to(np.array(bounds[0], dtype=float), (n,)).copy()
        hi = np.broadcast_to(np.array(bounds[1], dtype=float), (n,)).copy()
        x, f, nfev = self._run(fun, x0, lo, hi)
        return OptimizeResult(x=x, fun=np.atleast_1d(f), cost=0.5 * f * f,
                              success=self.success, nfev=nfev,
                              status=1 if self.success else 0,
                              message='stub driver')

    def dual_annealing(self, fun, bounds, x0=None, maxiter=None, **kw):
        lo, hi = _bounds_arrays(bounds, len(bounds))
        x, f, nfev = self._run(fun, x0, lo, hi)
        return OptimizeResult(x=x, fun=f, success=True, nfev=nfev, nit=nfev,
                              message=['stub driver'])

    def differential_evolution(self, fun, bounds, x0=None, **kw):
        lo, hi = _bounds_arrays(bounds, len(bounds))
        if kw.get('workers') == -1:
            # multi-process workers: every evaluation happens on a pickled
            # copy of the objective (and of the lens behind it); the parent's
            # lens does not move until optiland writes the result
            pool = SimPool(len(self.plan) + 17, self.stats)
            self.stats['pool_runs'] = self.stats.get('pool_runs', 0) + 1
            inner = fun

            def fun(x):
                return pool.map(inner, [x])[0]
        x, f, nfev = self._run(fun, x0, lo, hi)
        return OptimizeResult(x=x, fun=f, success=True, nfev=nfev, nit=nfev,
                              message='stub driver')


class SimPool:
    """In-process stand-in for multiprocessing.Pool.map with true copy
    isolation.  Stub; the DE algorithm calling it is real."""

    def __init__(self, seed, stats=None):
        self.r = random.Random(seed)
        self.stats = stats if stats is not None else {}
        self.record = None

    def map(self, func, iterable):
        items = list(iterable)
        if not items:
            return []
        blob = pickle.dumps(func)
        nchunks = max(1, min(len(items), self.r.randint(1, 4)))
        idx = list(range(len(items)))
        chunks = [idx[i::nchunks] for i in range(nchunks)]
        self.r.shuffle(chunks)
        out = [None] * len(items)
        for chunk in chunks:
            f = pickle.loads(blob)        # what the child process receives
            order = list(chunk)
            if self.r.random() < 0.3:
                self.r.shuffle(order)
                self.stats['pool_reordered'] = \
                    self.stats.get('pool_reordered', 0) + 1
            for i in order:
                out[i] = f(items[i])
                if self.record is not None:
                    self.record.append((np.array(items[i], dtype=float).copy(),
                                        float(np.ravel(out[i])[0])))
                if self.r.random() < 0.1:
                    f(items[i])           # duplicated task, result dropped
                    self.stats['pool_duplicated'] = \
                        self.stats.get('pool_duplicated', 0) + 1
        self.stats['pool_tasks'] = self.stats.get('pool_tasks', 0) + \
            len(items)
        self.stats['pool_chunks'] = self.stats.get('pool_chunks', 0) + \
            len(chunks)
        return out


class RealDriver:
    """Real scipy, seeded; multi-process pool replaced by SimPool.  Every
    objective evaluation (in the parent and inside the simulated pool) is
    recorded so that the harness can tell whether the driver handed back a
    consistent (x, fun) pair — scipy's L-BFGS-B, for one, can return the x of
    the last accepted iterate together with the fun of a later line-search
    point when the line search fails."""

    def __init__(self, seed, stats=None):
        self.seed = seed
        self.stats = stats if stats is not None else {}
        self.trace = []
        self.after_eval = None

    def _spy(self, fun):
        def spied(x, *a, **kw):
            f = fun(x, *a, **kw)
            self.trace.append((np.array(x, dtype=float).copy(),
                               float(np.ravel(f)[0])))
            if self.after_eval is not None:
                self.after_eval()
            return f
        return spied

    def consistent(self, x, f):
        x = np.ravel(np.array(x, dtype=float))
        for xe, fe in self.trace:
            if xe.shape == x.shape and np.array_equal(xe, x) and \
                    (fe == f or (fe != fe and f != f)):
                return True
        return False

    # evaluation budget of the simulated environment: a driver that runs out
    # of budget returns its current iterate with success=False, which is
    # within scipy's contract (and keeps one run of a check bounded: a
    # least-squares compensation at tol=1e-8 can otherwise take 500
    # evaluations per Monte-Carlo trial)
    MAX_ITER = 100
    MAX_FEV = 300
    MAX_LSQ = 50

    def minimize(self, fun, *a, **kw):
        opts = dict(kw.get('options') or {})
        it = opts.get('maxiter')
        opts['maxiter'] = self.MAX_ITER if it is None else \
            min(int(it), self.MAX_ITER)
        key = {'nelder-mead': 'maxfev', 'powell': 'maxfev',
               'l-bfgs-b': 'maxfun', 'tnc': 'maxfun'}.get(
                   str(kw.get('method') or '').lower())
        if key:
            opts[key] = min(int(opts.get(key) or self.MAX_FEV), self.MAX_FEV)
        kw['options'] = opts
        return REAL['minimize'](self._spy(fun), *a, **kw)

    def least_squares(self, fun, *a, **kw):
        # max_nfev does not count the evaluations of the finite-difference
        # Jacobian (n more per iteration)
        nf = kw.get('max_nfev')
        kw['max_nfev'] = self.MAX_LSQ if nf is None else \
            min(int(nf), self.MAX_LSQ)
        return REAL['least_squares'](self._spy(fun), *a, **kw)

    def dual_annealing(self, fun, *a, **kw):
        kw['rng'] = self.seed
        return REAL['dual_annealing'](self._spy(fun), *a, **kw)

    def differential_evolution(self, fun, *a, **kw):
        kw['rng'] = self.seed
        kw.setdefault('popsize', 3 + self.seed % 5)
        if kw.get('workers') == -1:
            pool = SimPool(self.seed + 1, self.stats)
            pool.record = self.trace
            kw['workers'] = pool.map
            self.stats['pool_runs'] = self.stats.get('pool_runs', 0) + 1
            return REAL['differential_evolution'](fun, *a, **kw)
        return REAL['differential_evolution'](self._spy(fun), *a, **kw)


@contextlib.contextmanager
def patched(driver):
    old = {name: getattr(_so, name) for name in REAL}
    for name in REAL:
        setattr(_so, name, getattr(driver, name))
    try:
        yield driver
    finally:
        for name, fn in old.items():
            setattr(_so, name, fn)
