"""In-memory file system bound to the namespace of optiland's fileio module
(the seam: that module looks up `open` and `os` as module globals at call
time).  Fault-free by design: C19 says nothing about I/O failure, so no disk
faults are injected; what *is* simulated is durability — after a restart only
what was written here survives."""
import io
import contextlib


class _File(io.StringIO):
    def __init__(self, fs, path, mode, initial=''):
        super().__init__(initial if 'r' in mode else '')
        self._fs, self._path, self._mode = fs, path, mode

    def close(self):
        if 'w' in self._mode and not self.closed:
            self._fs.files[self._path] = self.getvalue()
            self._fs.writes += 1
            # simulated clock: one second per completed write
            self._fs.mtime_ns[self._path] = \
                (1_700_000_000 + self._fs.writes) * 1_000_000_000
        super().close()

    def __exit__(self, *a):
        self.close()
        return False


class _OsPath:
    def __init__(self, fs, real):
        self._fs, self._real = fs, real

    def exists(self, p):
        return p in self._fs.files

    isfile = exists

    def getsize(self, p):
        return self._fs.stat(p).st_size

    def getmtime(self, p):
        return self._fs.stat(p).st_mtime

    def __getattr__(self, name):
        return getattr(self._real, name)


class _Os:
    def __init__(self, fs, real):
        self.path = _OsPath(fs, real.path)
        self._real = real
        self.stat = fs.stat

    def remove(self, p):
        if p not in self.path._fs.files:
            raise FileNotFoundError(p)
        del self.path._fs.files[p]

    def __getattr__(self, name):
        return getattr(self._real, name)


class SimFS:
    def __init__(self):
        self.files = {}
        self.mtime_ns = {}
        self.writes = 0
        self.reads = 0

    def stat(self, path, *a, **kw):
        import os
        if path not in self.files:
            raise FileNotFoundError(path)
        ns = self.mtime_ns.get(path, 1_700_000_000 * 1_000_000_000)
        size = len(self.files[path].encode())
        sec = ns // 1_000_000_000
        return os.stat_result((0o100644, 1, 1, 1, 0, 0, size, sec, sec, sec,
                               float(sec), float(sec), float(sec),
                               ns, ns, ns))

    def open(self, path, mode='r', *a, **kw):
        if 'r' in mode:
            if path not in self.files:
                raise FileNotFoundError(path)
            self.reads += 1
            return _File(self, path, mode, self.files[path])
        return _File(self, path, mode)

    @contextlib.contextmanager
    def mounted(self):
        import os
        from optiland.fileio import optiland_handler as mod
        had_open = 'open' in mod.__dict__
        old_open = mod.__dict__.get('open')
        old_os = mod.os
        mod.open = self.open
        mod.os = _Os(self, os)
        try:
            yield self
        finally:
            if had_open:
                mod.open = old_open
            else:
                del mod.open
            mod.os = old_os
