"""In-memory file system bound to the namespace of optiland's fileio module
(the seam: that module looks up `open` and `os` as module globals at call
time).  Fault-free by design: C19 says nothing about I/O failure, so no disk
faults are injected; what *is* simulated is durability — after a restart only
what was written here survives."""
import io
import contextlib


class _File(io.StringIO):
    def __init__(self, fs, path, mode, initial=''):
        super().__init__(initial if 'r' in mode else '')
        self._fs, self._path, self._mode = fs, path, mode

    def close(self):
        if 'w' in self._mode and not self.closed:
            self._fs.files[self._path] = self.getvalue()
            self._fs.writes += 1
            # simulated clock: one second per completed write
            self._fs.mtime_ns[self._path] = \
                (1_700_000_000 + self._fs.writes) * 1_000_000_000
        super().close()

    def __exit__(self, *a):
        self.close()
        return False


class _FdFile(io.StringIO):
    """A file object over a descriptor obtained from os.open: it writes
    into the existing content at the descriptor's position, so what the
    content is afterwards depends on the flags the file was opened with
    (O_TRUNC or not), as on a real file system."""

    def __init__(self, fs, fd, mode):
        st = fs.fds[fd]
        super().__init__(fs.files.get(st['path'], '') if 'r' in mode or
                         not st['trunc'] else '')
        self.seek(0, 2 if st['append'] else 0)
        self._fs, self._fd, self._mode = fs, fd, mode

    def truncate(self, size=None):
        return super().truncate(size)

    def close(self):
        if not self.closed:
            st = self._fs.fds.pop(self._fd, None)
            if st is not None and ('w' in self._mode or 'a' in self._mode
                                   or '+' in self._mode):
                self._fs.files[st['path']] = self.getvalue()
                self._fs.writes += 1
                self._fs.mtime_ns[st['path']] = \
                    (1_700_000_000 + self._fs.writes) * 1_000_000_000
        super().close()

    def __exit__(self, *a):
        self.close()
        return False


class _OsPath:
    def __init__(self, fs, real):
        self._fs, self._real = fs, real

    def exists(self, p):
        return p in self._fs.files

    isfile = exists

    def getsize(self, p):
        return self._fs.stat(p).st_size

    def getmtime(self, p):
        return self._fs.stat(p).st_mtime

    def __getattr__(self, name):
        return getattr(self._real, name)


class _Os:
    def __init__(self, fs, real):
        self.path = _OsPath(fs, real.path)
        self._real = real
        self.stat = fs.stat
        self._fs = fs

    # descriptor-level calls (os.open / fdopen / write / close / replace)
    def open(self, path, flags, mode=0o777, *a, **kw):
        real = self._real
        fs = self._fs
        if path not in fs.files:
            if not flags & real.O_CREAT:
                raise FileNotFoundError(path)
            fs.files[path] = ''
        elif flags & real.O_CREAT and flags & real.O_EXCL:
            raise FileExistsError(path)
        fd = fs.next_fd
        fs.next_fd += 1
        if flags & real.O_TRUNC:
            fs.files[path] = ''
        fs.fds[fd] = {'path': path, 'trunc': bool(flags & real.O_TRUNC),
                      'append': bool(flags & real.O_APPEND), 'pos': 0}
        return fd

    def fdopen(self, fd, mode='r', *a, **kw):
        if fd not in self._fs.fds:
            return self._real.fdopen(fd, mode, *a, **kw)
        return _FdFile(self._fs, fd, mode)

    def write(self, fd, data):
        st = self._fs.fds.get(fd)
        if st is None:
            return self._real.write(fd, data)
        text = data.decode() if isinstance(data, (bytes, bytearray)) else data
        cur = self._fs.files[st['path']]
        pos = len(cur) if st['append'] else st['pos']
        self._fs.files[st['path']] = cur[:pos] + text + cur[pos + len(text):]
        st['pos'] = pos + len(text)
        return len(data)

    def ftruncate(self, fd, n):
        st = self._fs.fds.get(fd)
        if st is None:
            return self._real.ftruncate(fd, n)
        self._fs.files[st['path']] = self._fs.files[st['path']][:n]

    def fsync(self, fd):
        if fd not in self._fs.fds:
            return self._real.fsync(fd)

    def close(self, fd):
        st = self._fs.fds.pop(fd, None)
        if st is None:
            return self._real.close(fd)
        self._fs.writes += 1
        self._fs.mtime_ns[st['path']] = \
            (1_700_000_000 + self._fs.writes) * 1_000_000_000

    def replace(self, src, dst):
        fs = self._fs
        if src not in fs.files:
            raise FileNotFoundError(src)
        fs.files[dst] = fs.files.pop(src)
        fs.mtime_ns[dst] = fs.mtime_ns.pop(src, 1_700_000_000 * 10 ** 9)

    rename = replace

    def remove(self, p):
        if p not in self.path._fs.files:
            raise FileNotFoundError(p)
        del self.path._fs.files[p]

    def __getattr__(self, name):
        return getattr(self._real, name)


class SimFS:
    def __init__(self):
        self.files = {}
        self.fds = {}
        self.next_fd = 1000
        self.mtime_ns = {}
        self.writes = 0
        self.reads = 0

    def stat(self, path, *a, **kw):
        import os
        if path not in self.files:
            raise FileNotFoundError(path)
        ns = self.mtime_ns.get(path, 1_700_000_000 * 1_000_000_000)
        size = len(self.files[path].encode())
        sec = ns // 1_000_000_000
        return os.stat_result((0o100644, 1, 1, 1, 0, 0, size, sec, sec, sec,
                               float(sec), float(sec), float(sec),
                               ns, ns, ns))

    def open(self, path, mode='r', *a, **kw):
        if isinstance(path, int):          # open(fd, ...)
            return _FdFile(self, path, mode)
        if 'r' in mode and '+' not in mode:
            if path not in self.files:
                raise FileNotFoundError(path)
            self.reads += 1
            return _File(self, path, mode, self.files[path])
        return _File(self, path, mode)

    @contextlib.contextmanager
    def mounted(self):
        import os
        from optiland.fileio import optiland_handler as mod
        had_open = 'open' in mod.__dict__
        old_open = mod.__dict__.get('open')
        old_os = mod.os
        mod.open = self.open
        mod.os = _Os(self, os)
        try:
            yield self
        finally:
            if had_open:
                mod.open = old_open
            else:
                del mod.open
            mod.os = old_os
