"""Batch runner: seeded runs across worker processes, violation handling
(classification, minimisation, fresh-interpreter replay verification,
known-findings matching) and evidence writing.

Exit codes of a check: 0 held, 1 VIOLATION printed, 2 harness error (never
"held": a timed-out or crashed run makes the check fail loudly but without a
VIOLATION line).
"""
import faulthandler
import json
import multiprocessing as mp
import os
import signal
import subprocess
import sys
import time
import traceback

from sim import rng, shrink as shrinkmod
from sim.canon import digest

ROOT = os.path.dirname(os.path.dirname(os.path.abspath(__file__)))
REPLAY_DIR = os.environ.get('VERIF_REPLAY_DIR') or \
    os.path.join(ROOT, 'replays')
EVID_DIR = os.environ.get('VERIF_EVID_DIR') or os.path.join(ROOT, 'evidence')
KNOWN_FILE = os.path.join(ROOT, 'known_findings.json')


class RunTimeout(BaseException):
    """Raised by the per-run alarm.  Not an Exception: harness and library
    code that catches Exception (to classify a raising call) must not swallow
    it - a swallowed alarm once turned a slow run on a loaded machine into a
    spurious "not reproducible" verdict."""


def _alarm(signum, frame):
    raise RunTimeout()


def code_digest():
    """Digest of the optiland sources the run imports (for replay headers)."""
    import hashlib
    import optiland
    base = os.path.dirname(optiland.__file__)
    h = hashlib.blake2b(digest_size=8)
    for dp, dn, fn in sorted(os.walk(base)):
        dn.sort()
        for f in sorted(fn):
            if f.endswith('.py'):
                with open(os.path.join(dp, f), 'rb') as fh:
                    h.update(fh.read())
    return h.hexdigest()


def _worker_chunk(args):
    engine_name, prop, base_seed, indices, cfg, keep_hist = args
    import importlib
    eng = importlib.import_module('engines.' + engine_name)
    out = []
    signal.signal(signal.SIGALRM, _alarm)
    for i in indices:
        run_seed = rng.derive(base_seed, prop, i)
        t0 = time.time()
        signal.setitimer(signal.ITIMER_REAL, cfg.get('run_timeout', 300))
        try:
            res = eng.run_one(prop, run_seed, i, cfg)
        except RunTimeout:
            res = {'error': 'timeout', 'stats': {}, 'violation': None}
        except Exception:
            res = {'error': traceback.format_exc(), 'stats': {},
                   'violation': None}
        finally:
            signal.setitimer(signal.ITIMER_REAL, 0)
        res['run'] = i
        res['seed'] = run_seed
        res['wall'] = time.time() - t0
        if not (res.get('violation') or res.get('error') or i in keep_hist):
            res.pop('history', None)
        out.append(res)
    return out


def _child_main(conn, engine_name, prop, base_seed, cfg, keep_hist):
    """Worker process: receives lists of run indices, sends one result per
    run.  Exits when it receives None."""
    try:
        while True:
            task = conn.recv()
            if task is None:
                break
            for i in task:
                conn.send(('start', i))
                res = _worker_chunk((engine_name, prop, base_seed, [i], cfg,
                                     keep_hist))[0]
                conn.send(('done', res))
            conn.send(('idle', None))
    except (EOFError, KeyboardInterrupt):
        pass
    finally:
        os._exit(0)


def run_batch(engine_name, prop, base_seed, cfg, nruns, workers,
              wall_budget=None, first_index=0):
    """Run `nruns` seeded runs on forked worker processes.  Results come back
    in run-index order, so the report does not depend on the worker count.
    A worker stuck inside native code (which no Python-level alarm can
    interrupt) is killed after a hard limit and its run recorded as a
    harness error; the worker is replaced."""
    from multiprocessing.connection import wait
    indices = list(range(first_index, first_index + nruns))
    chunk = max(1, min(8, nruns // (max(1, workers) * 4) or 1))
    chunks = [indices[k:k + chunk] for k in range(0, len(indices), chunk)]
    keep = set(indices[:3])
    results = []
    truncated = False
    t0 = time.time()
    sys.stdout.flush()
    sys.stderr.flush()
    if workers <= 1:
        for c in chunks:
            if wall_budget and time.time() - t0 > wall_budget:
                truncated = True
                break
            results += _worker_chunk((engine_name, prop, base_seed, c, cfg,
                                      keep))
        results.sort(key=lambda r: r['run'])
        return results, truncated
    ctx = mp.get_context('fork')
    hard = cfg.get('run_timeout', 300) * 1.5 + 30
    procs = {}      # conn -> dict(proc, task, current, started)

    def spawn():
        pc, cc = ctx.Pipe(duplex=True)
        p = ctx.Process(target=_child_main,
                        args=(cc, engine_name, prop, base_seed, cfg, keep),
                        daemon=True)
        p.start()
        cc.close()
        procs[pc] = {'proc': p, 'task': None, 'current': None,
                     'started': None, 'left': []}
        return pc

    it = iter(chunks)
    # sensitivity self-test only: stop handing out work once this many runs
    # have violated with a signature that is not a recorded known finding
    stop_after = int(os.environ.get('VERIF_STOP_AFTER_VIOLATIONS', '0'))
    known = load_known() if stop_after else []
    fresh = [0]

    def give(pc):
        nonlocal truncated
        if wall_budget and time.time() - t0 > wall_budget:
            truncated = True
            c = None
        elif stop_after and fresh[0] >= stop_after:
            truncated = True
            c = None
        else:
            c = next(it, None)
        st = procs[pc]
        if c is None:
            try:
                pc.send(None)
            except Exception:
                pass
            st['task'] = None
            return False
        st['task'] = c
        st['left'] = list(c)
        st['current'] = None
        pc.send(c)
        return True

    for _ in range(min(workers, len(chunks))):
        give(spawn())
    while any(st['task'] is not None for st in procs.values()):
        live = [pc for pc, st in procs.items() if st['task'] is not None]
        ready = wait(live, timeout=1.0)
        now = time.time()
        for pc in ready:
            st = procs[pc]
            try:
                kind, payload = pc.recv()
            except (EOFError, OSError):
                # worker died: account for its unfinished runs
                for i in st['left']:
                    results.append({'run': i, 'error': 'worker died',
                                    'stats': {}, 'violation': None,
                                    'seed': rng.derive(base_seed, prop, i)})
                st['task'] = None
                st['proc'].join(timeout=1)
                del procs[pc]
                give(spawn())
                continue
            if kind == 'start':
                st['current'] = payload
                st['started'] = now
            elif kind == 'done':
                results.append(payload)
                v_ = payload.get('violation')
                if stop_after and v_ and not match_known(
                        prop, v_['signature'], known):
                    fresh[0] += 1
                if payload['run'] in st['left']:
                    st['left'].remove(payload['run'])
                st['current'] = None
            elif kind == 'idle':
                give(pc)
        for pc, st in list(procs.items()):
            if st['task'] is not None and st['current'] is not None and \
                    now - st['started'] > hard:
                try:
                    st['proc'].kill()
                except Exception:
                    pass
                st['proc'].join(timeout=2)
                stuck = st['current']
                for i in st['left']:
                    results.append({
                        'run': i, 'stats': {}, 'violation': None,
                        'seed': rng.derive(base_seed, prop, i),
                        'error': ('hard timeout (worker killed)'
                                  if i == stuck else
                                  'not run: worker killed')})
                del procs[pc]
                give(spawn())
    for pc, st in procs.items():
        st['proc'].join(timeout=2)
        if st['proc'].is_alive():
            st['proc'].kill()
    results.sort(key=lambda r: r['run'])
    return results, truncated


def merge_counts(dst, src):
    for k, v in src.items():
        if isinstance(v, dict):
            merge_counts(dst.setdefault(k, {}), v)
        elif isinstance(v, (int, float)):
            dst[k] = dst.get(k, 0) + v


def load_known():
    if not os.path.exists(KNOWN_FILE):
        return []
    with open(KNOWN_FILE) as f:
        return json.load(f).get('findings', [])


def match_known(prop, signature, known):
    for k in known:
        if k.get('status') == 'known' and k.get('property') == prop and \
                k.get('signature') == signature:
            return k
    return None


def write_replay(prop, engine_name, history, violation, tag):
    os.makedirs(REPLAY_DIR, exist_ok=True)
    path = os.path.join(REPLAY_DIR, f'{prop}-{tag}.json')
    doc = {'property': prop, 'engine': engine_name,
           'violation': violation, 'history': history,
           'code_digest': code_digest()}
    with open(path, 'w') as f:
        json.dump(doc, f, indent=1, sort_keys=True, default=_json_default)
    return path


def _strict(o):
    import math
    if isinstance(o, dict):
        return {str(k): _strict(v) for k, v in o.items()}
    if isinstance(o, (list, tuple)):
        return [_strict(v) for v in o]
    if isinstance(o, float) and not math.isfinite(o):
        return repr(o)
    return o


def _json_default(o):
    import numpy as np
    if isinstance(o, np.ndarray):
        return o.tolist()
    if isinstance(o, (np.floating,)):
        return float(o)
    if isinstance(o, (np.integer,)):
        return int(o)
    if isinstance(o, (np.bool_,)):
        return bool(o)
    return repr(o)


def replay_file(path, engine_mod=None):
    import importlib
    with open(path) as f:
        doc = json.load(f)
    eng = engine_mod or importlib.import_module('engines.' + doc['engine'])
    res = eng.replay(doc['property'], doc['history'])
    return doc, res


def verify_replay_fresh(prop, path, signature):
    """Re-execute the replay file in a fresh interpreter (different hash
    seed); it must reproduce the same signature."""
    env = dict(os.environ)
    env['PYTHONHASHSEED'] = '12345'
    env['VERIF_REEXEC'] = '1'
    p = subprocess.run([sys.executable, os.path.join(ROOT, 'check'), prop,
                        '--replay', path, '--json'], env=env,
                       capture_output=True, text=True, timeout=600)
    try:
        line = [l for l in p.stdout.splitlines() if l.startswith('{')][-1]
        out = json.loads(line)
    except Exception:
        return False, f'no json from replay (rc={p.returncode}): ' + \
            p.stdout[-300:] + p.stderr[-300:]
    v = out.get('violation')
    if v and v.get('signature') == signature:
        return True, ''
    return False, f'replay gave {v and v.get("signature")!r}, ' \
                  f'expected {signature!r}'


def check_main(engine_name, prop, tier, base_seed, cfg, nruns, workers,
               wall_budget, evidence_fn, max_report=6, first_index=0):
    """Run the batch, handle violations, write evidence, return exit code."""
    import importlib
    eng = importlib.import_module('engines.' + engine_name)
    t0 = time.time()
    print(f'VERIF_SEED={base_seed} property={prop} engine={engine_name} '
          f'tier={tier} runs={nruns} workers={workers}', flush=True)
    results, truncated = run_batch(engine_name, prop, base_seed, cfg, nruns,
                                   workers, wall_budget, first_index)
    errors = [r for r in results if r.get('error')]
    viols = [r for r in results if r.get('violation')]
    known = load_known()
    rc = 0
    reported = {}
    known_hit = {}
    alternates = {}
    for r in viols:
        sig = r['violation']['signature']
        k = match_known(prop, sig, known)
        if k is not None:
            known_hit.setdefault(sig, (k, r))
            continue
        if sig in reported:
            alternates.setdefault(sig, []).append(r)
        reported.setdefault(sig, r)
    for sig, (k, r) in known_hit.items():
        print(f'KNOWN-FINDING: property={prop} {k.get("what", sig)} '
              f'[signature={sig}]', flush=True)
    harness_broken = []
    nrep = 0
    for sig, r in reported.items():
        if nrep >= max_report:
            print(f'(further distinct violation signature not minimised: '
                  f'{sig})')
            continue
        nrep += 1
        # A violation that depends on what *earlier runs in the same worker
        # process* left behind (state leaking between lenses through the
        # library's module / class level) does not reproduce from its own
        # history alone; other runs with the same signature are tried before
        # the check gives up on a replayable witness.
        ok, why = False, 'no candidate'
        for cand in [r] + alternates.get(sig, [])[:10]:
            hist = cand['history']
            viol = cand['violation']
            try:
                small, sviol, nrep_runs = shrinkmod.minimise(
                    eng, prop, hist, viol,
                    budget_s=cfg.get('shrink_budget', 120))
            except Exception:
                small, sviol, nrep_runs = hist, viol, 0
                print('shrink failed:', traceback.format_exc())
            tag = f'{base_seed}-{cand["run"]}-{digest(sig, 6)}'
            path = write_replay(prop, engine_name, small, sviol, tag)
            ok, why = verify_replay_fresh(prop, path, sig)
            if not ok and small is not hist:
                # minimisation replays candidates in *this* process; when the
                # library keeps state between lenses (module / class level)
                # the minimised history may lean on what earlier candidates
                # left behind.  The history as recorded is tried as is.
                try:
                    os.replace(path, path[:-5] + '.unreproduced')
                except OSError:
                    pass
                path = write_replay(prop, engine_name, hist, viol, tag)
                ok, why = verify_replay_fresh(prop, path, sig)
                if ok:
                    small, sviol = hist, viol
            if ok:
                r = cand
                break
            try:        # kept for diagnosis, out of the way of real replays
                os.replace(path, path[:-5] + '.unreproduced')
            except OSError:
                pass
        if not ok:
            harness_broken.append((sig, why))
            print(f'HARNESS-ERROR: replay of {path} did not reproduce: {why}',
                  flush=True)
            continue
        print(f'  violation class={sviol["class"]} signature={sig}\n'
              f'  seed={base_seed} run={r["run"]} run_seed={r["seed"]} '
              f'ops {len(hist.get("ops", []))} -> '
              f'{len(small.get("ops", []))} ({nrep_runs} replays)\n'
              f'  detail: {str(sviol.get("detail"))[:600]}', flush=True)
        print(f'VIOLATION property={prop} replay={path}', flush=True)
        rc = 1
    for r in errors[:5]:
        print(f'HARNESS-ERROR: run {r["run"]} seed {r.get("seed")}: '
              f'{str(r["error"])[-1500:]}', flush=True)
    wall = time.time() - t0
    ev = evidence_fn(results, wall, truncated, len(reported), known_hit)
    os.makedirs(EVID_DIR, exist_ok=True)
    with open(os.path.join(EVID_DIR, f'{prop}.json'), 'w') as f:
        # strict JSON: non-finite floats as strings
        json.dump(_strict(ev), f, indent=1, default=_json_default,
                  allow_nan=False)
    if rc == 0 and (errors or harness_broken):
        rc = 2
    n_ok = len(results) - len(errors)
    print(f'{prop}: {len(results)} runs ({n_ok} completed, {len(viols)} with '
          f'violation, {len(errors)} harness errors) in {wall:.1f}s; '
          f'distinct_nontrivial={ev["coverage"]["distinct_nontrivial"]}; '
          f'exit {rc}', flush=True)
    return rc
