"""Reference model of the lens prescription (no optiland imports).

The semantics are the sentences of property C01 (and the scale clause of C07),
not the implementation: vertex = running sum of the thicknesses given, first
surface at 0, object at -t0; medium in front of k = medium given for k-1; a new
stop clears the others; the first wavelength, or one added as primary, is the
only primary; set_X changes X and nothing else; set_index(k) changes the
medium behind k.
"""
import copy
import math

INF = float('inf')


class NotApplicable(Exception):
    """The operation is not in the valid-input domain for the current state
    (it is skipped on both model and SUT)."""


def strip2d(c):
    """2-D coefficient list with trailing all-zero rows / columns removed
    (zero padding changes no quantity)."""
    if c is None:
        return None
    rows = [list(map(float, r)) for r in c]
    ncol = max((len(r) for r in rows), default=0)
    rows = [r + [0.0] * (ncol - len(r)) for r in rows]
    while rows and all(v == 0 for v in rows[-1]):
        rows.pop()
    while rows and rows[0] and all(r[-1] == 0 for r in rows):
        rows = [r[:-1] for r in rows]
    return rows


class Model:
    def __init__(self):
        self.surfs = []
        self.wls = []          # dicts: value (as given), unit, primary
        self.fields = []
        self.field_type = None
        self.aperture = None   # [type, value]
        self.pickups = []      # dicts src, attr, dst, scale, offset
        self.solves = []       # dicts k, h
        self.extra_ops = []    # build ops with no model effect, verbatim
        self.zscale = 1.0      # running magnitude of |z| (for tolerances)
        self.synced = True     # False after insertion / removal in the middle

    def clone(self):
        return copy.deepcopy(self)

    # ------------------------------------------------------------ queries
    @property
    def n(self):
        return len(self.surfs)

    def positions(self):
        z = []
        for k, s in enumerate(self.surfs):
            if k == 0:
                z.append(-s['t'])
            elif k == 1:
                z.append(0.0)
            else:
                z.append(z[k - 1] + self.surfs[k - 1]['t'])
        return z

    def _touch_scale(self):
        tot = sum(abs(s['t']) for s in self.surfs[:-1]
                  if math.isfinite(s['t']))
        self.zscale = max(self.zscale, tot)

    def infinite_object(self):
        return math.isinf(self.surfs[0]['t'])

    def stop_index(self):
        for k, s in enumerate(self.surfs):
            if s['stop']:
                return k
        return None

    def is_plane(self, k):
        return self.surfs[k]['kind'] == 'plane'

    # ------------------------------------------------------------ build ops
    def add_surface(self, op):
        k = op['index']
        if k != self.n:
            raise NotApplicable('not appended in index order')
        radius = op.get('radius', INF)
        st = op.get('stype', 'standard')
        mat = list(op.get('material', ['air']))
        reflective = mat[0] == 'mirror'
        if mat[0] == 'mirror':
            if k == 0:
                raise NotApplicable('mirror object')
            mat = list(self.surfs[k - 1]['mat'])   # medium in front
        if st == 'standard':
            kind = 'plane' if math.isinf(radius) else 'standard'
        else:
            kind = st
        s = {'t': op.get('thickness', 0), 'radius': radius,
             'conic': None if kind == 'plane' else op.get('conic', 0),
             'kind': kind, 'coeffs': None,
             'dx': op.get('dx', 0), 'dy': op.get('dy', 0),
             'rx': op.get('rx', 0), 'ry': op.get('ry', 0),
             'mat': mat, 'stop': bool(op.get('stop', False)),
             'reflective': reflective,
             'aperture': list(op['aperture']) if op.get('aperture') else None,
             'op': dict(op)}
        if kind == 'even_asphere':
            s['coeffs'] = [c for c in op.get('coefficients', [])]
        elif kind in ('polynomial', 'chebyshev'):
            c = op.get('coefficients', [])
            s['coeffs'] = [list(r) for r in c] if len(c) else [[0.0]]
        if s['stop']:
            for o in self.surfs:
                o['stop'] = False
        self.surfs.append(s)
        self._touch_scale()

    def add_wavelength(self, op):
        prim = bool(op.get('primary', False))
        if prim:
            for w in self.wls:
                w['primary'] = False
        if not self.wls:
            prim = True
        self.wls.append({'value': op['value'], 'unit': op.get('unit', 'um'),
                         'primary': prim})

    def apply_build(self, op):
        o = op['op']
        if o == 'add_surface':
            self.add_surface(op)
        elif o == 'add_wavelength':
            self.add_wavelength(op)
        elif o == 'set_aperture':
            self.aperture = [op['type'], op['value']]
        elif o == 'set_field_type':
            self.field_type = op['type']
        elif o == 'add_field':
            self.fields.append([op.get('x', 0.0), op['y'], op.get('vx', 0.0),
                                op.get('vy', 0.0)])
        elif o in ('set_polarization', 'set_telecentric'):
            self.extra_ops.append(dict(op))
        else:
            raise NotApplicable(o)

    # ------------------------------------------------------------ edit ops
    def idx(self, k, lo, hi):
        """Map a recorded index into [lo, hi] (identity for generated ops;
        keeps a shrunk history executable)."""
        if hi < lo:
            raise NotApplicable('no surface in range')
        return lo + (k - lo) % (hi - lo + 1)

    def set_radius(self, k, v):
        s = self.surfs[k]
        if s['kind'] == 'plane':
            s['kind'] = 'standard'
            s['conic'] = 0
        s['radius'] = v

    def set_conic(self, k, v):
        if self.surfs[k]['kind'] == 'plane':
            raise NotApplicable('conic of a plane')
        self.surfs[k]['conic'] = v

    def set_thickness(self, k, v):
        if k == 0 and self.infinite_object():
            raise NotApplicable('object at infinity')
        self.surfs[k]['t'] = v
        self._touch_scale()

    def set_index(self, k, v):
        self.surfs[k]['mat'] = ['ideal', v, 0]

    def set_asphere_coeff(self, k, i, v):
        s = self.surfs[k]
        if s['kind'] != 'even_asphere' or not s['coeffs']:
            raise NotApplicable('not an even asphere')
        s['coeffs'][i % len(s['coeffs'])] = v

    def set_poly_coeff(self, k, i, j, v):
        s = self.surfs[k]
        if s['kind'] not in ('polynomial', 'chebyshev'):
            raise NotApplicable('not a polynomial surface')
        c = s['coeffs']
        ncol = max(len(r) for r in c)
        while len(c) <= i:
            c.append([0.0] * ncol)
        for r in c:
            while len(r) <= max(j, ncol - 1):
                r.append(0.0)
        c[i][j] = v

    # -- pickups
    def pickup_ok(self, src, attr, dst):
        if src == dst:
            return False
        for p in self.pickups:
            if p['attr'] != attr:
                continue
            # one pickup per target; nothing registered earlier may read the
            # new target (it would have been applied before its source is
            # up to date).  Reading an earlier pickup's target is fine: the
            # chain is then in dependency order and one pass settles it.
            if p['dst'] == dst or p['src'] == dst:
                return False
        if attr == 'radius':
            # a flat source is allowed (its target is flat too until the
            # source is given a radius)
            return True
        if attr == 'conic':
            return not self.is_plane(src) and not self.is_plane(dst)
        if attr == 'thickness':
            gaps = {s['k'] - 1 for s in self.solves}
            if src in gaps or dst in gaps:
                return False
            return math.isfinite(self.surfs[src]['t'])
        return False

    def get_attr(self, k, attr):
        s = self.surfs[k]
        return {'radius': s['radius'], 'conic': s['conic'],
                'thickness': s['t']}[attr]

    def apply_pickup(self, p):
        v = p['scale'] * self.get_attr(p['src'], p['attr']) + p['offset']
        if p['attr'] == 'radius' and not (v == v):
            raise NotApplicable('0 x infinity')
        if p['attr'] == 'radius':
            self.set_radius(p['dst'], v)
        elif p['attr'] == 'conic':
            self.set_conic(p['dst'], v)
        else:
            self.set_thickness(p['dst'], v)

    def add_pickup(self, p):
        if not self.pickup_ok(p['src'], p['attr'], p['dst']):
            raise NotApplicable('pickup set would not be conflict-free')
        self.apply_pickup(p)
        self.pickups.append(dict(p))

    def apply_pickups(self):
        # all or nothing: a pickup that turns out undefined half way through
        # (0 x a source another pickup has just made flat) must leave the
        # model as it was, because the operation is then skipped
        trial = self.clone()
        for p in trial.pickups:
            trial.apply_pickup(p)
        self.surfs = trial.surfs
        self.zscale = trial.zscale

    # -- solves
    def solve_ok(self, k):
        if not (2 <= k <= self.n - 1):
            return False
        if any(s['k'] >= k for s in self.solves):
            return False
        for p in self.pickups:
            if p['attr'] == 'thickness' and (k - 1) in (p['src'], p['dst']):
                return False
        ap = self.aperture[0] if self.aperture else None
        if self.infinite_object():
            return ap == 'EPD'
        if ap == 'objectNA':
            return True
        st = self.stop_index()
        return ap == 'EPD' and st is not None and st < k

    # -- scale (C07 clause)
    def scale(self, s):
        for sf in self.surfs:
            if math.isfinite(sf['radius']):
                sf['radius'] = sf['radius'] * s
        for sf in self.surfs[:-1]:
            if math.isfinite(sf['t']):
                sf['t'] = sf['t'] * s
        if self.aperture and self.aperture[0] == 'EPD':
            self.aperture[1] = self.aperture[1] * s
        for sf in self.surfs:
            if sf['aperture']:
                sf['aperture'] = [sf['aperture'][0] * s,
                                  sf['aperture'][1] * s]
        self._touch_scale()

    # ------------------------------------------------------------ export
    def to_build_ops(self):
        """Build operations that construct, from scratch, the lens the model
        currently describes (None when the model cannot be expressed that
        way, e.g. a mirror whose rear medium was edited)."""
        ops = []
        for k, s in enumerate(self.surfs):
            if 'op' not in s:
                return None
            op = dict(s['op'])
            op['index'] = k
            op.pop('share', None)
            op['thickness'] = s['t']
            op['radius'] = s['radius']
            op['stop'] = bool(s['stop'])
            if s['kind'] == 'plane':
                op.pop('conic', None)
            else:
                op['conic'] = s['conic']
                if op.get('stype', 'standard') == 'standard' and \
                        math.isinf(s['radius']):
                    return None
            if s['coeffs'] is not None:
                op['coefficients'] = copy.deepcopy(s['coeffs'])
            for key in ('dx', 'dy', 'rx', 'ry'):
                op[key] = s[key]
            if s['reflective']:
                if k == 0 or s['mat'] != self.surfs[k - 1]['mat']:
                    return None
                op['material'] = ['mirror']
            else:
                op['material'] = list(s['mat'])
            op['aperture'] = list(s['aperture']) if s['aperture'] else None
            ops.append(op)
        if self.aperture:
            ops.append({'op': 'set_aperture', 'type': self.aperture[0],
                        'value': self.aperture[1]})
        if self.field_type:
            ops.append({'op': 'set_field_type', 'type': self.field_type})
        for x, y, vx, vy in self.fields:
            ops.append({'op': 'add_field', 'x': x, 'y': y, 'vx': vx,
                        'vy': vy})
        for w in self.wls:
            ops.append({'op': 'add_wavelength', 'value': w['value'],
                        'unit': w['unit'], 'primary': w['primary']})
        ops += [dict(o) for o in self.extra_ops]
        return ops

    # ------------------------------------------------------------ snapshot
    def expected(self):
        """The observable prescription the model predicts."""
        return {
            'z': self.positions(),
            'radius': [s['radius'] for s in self.surfs],
            'conic': [0 if s['conic'] is None else s['conic']
                      for s in self.surfs],
            'coeffs': [s['coeffs'] for s in self.surfs],
            'dx': [s['dx'] for s in self.surfs],
            'dy': [s['dy'] for s in self.surfs],
            'rx': [s['rx'] for s in self.surfs],
            'ry': [s['ry'] for s in self.surfs],
            'mat': [s['mat'] for s in self.surfs],
            'stop': [s['stop'] for s in self.surfs],
            'reflective': [s['reflective'] for s in self.surfs],
            'sap': [s['aperture'] for s in self.surfs],
            'primary': [w['primary'] for w in self.wls],
            'aperture': list(self.aperture) if self.aperture else None,
        }
