"""History minimisation: ddmin over the operation list (and any other list the
engine names in history['shrinkable']), then engine-specific argument
simplification.  A candidate is kept only if the *same violation signature*
persists on replay."""
import copy
import time


def _same_violation(eng, prop, cand, sig, counter):
    counter[0] += 1
    try:
        res = eng.replay(prop, cand)
    except Exception:
        return None
    v = res.get('violation')
    if v and v.get('signature') == sig:
        return v
    return None


def _ddmin_list(eng, prop, hist, key, sig, counter, deadline, viol):
    items = hist[key]
    n = 2
    while len(items) >= 1 and time.time() < deadline:
        size = max(1, len(items) // n)
        removed_any = False
        i = 0
        while i < len(items) and time.time() < deadline:
            cand_items = items[:i] + items[i + size:]
            cand = dict(hist)
            cand[key] = cand_items
            v = _same_violation(eng, prop, cand, sig, counter)
            if v is not None:
                items = cand_items
                hist = cand
                viol = v
                removed_any = True
            else:
                i += size
        if size == 1 and not removed_any:
            break
        if not removed_any:
            n = min(len(items), n * 2)
            if size == 1:
                break
        else:
            n = max(2, n - 1)
    return hist, viol


def minimise(eng, prop, hist, viol, budget_s=120):
    sig = viol['signature']
    counter = [0]
    deadline = time.time() + budget_s
    hist = copy.deepcopy(hist)
    # the recorded history must reproduce by replay in this process first
    v0 = _same_violation(eng, prop, hist, sig, counter)
    if v0 is None:
        return hist, viol, counter[0]
    viol = v0
    keys = hist.get('shrinkable', ['ops'])
    for rounds in range(3):
        before = sum(len(hist[k]) for k in keys)
        for key in keys:
            hist, viol = _ddmin_list(eng, prop, hist, key, sig, counter,
                                     deadline, viol)
        simp = getattr(eng, 'simplify', None)
        if simp is not None:
            # simp returns callables hist -> candidate hist (or None); each is
            # applied to the *current* history
            for edit in simp(prop, hist):
                if time.time() > deadline:
                    break
                try:
                    cand = edit(copy.deepcopy(hist))
                except Exception:
                    cand = None
                if cand is None:
                    continue
                v = _same_violation(eng, prop, cand, sig, counter)
                if v is not None:
                    hist, viol = cand, v
        after = sum(len(hist[k]) for k in keys)
        if after == before or time.time() > deadline:
            break
    return hist, viol, counter[0]
